// Command instrument copies the working tree of the lungo module to a scratch
// directory and rewrites the copy for deterministic simulation:
//
//   - imports of sync, os and time are redirected to verifsim/simsync, simos, simtime
//   - a scheduling point is inserted before every blocking select, as first
//     statement of each of its communication clauses, and around bare channel
//     sends and receives
//   - every range over a map is wrapped in simrt.MapRange
//   - bsonkit gets a reset hook for its process-global timestamp generator
//
// All rewriting is syntactic or go/types driven; nothing depends on line
// numbers or function names, so edited code is instrumented the same way.
//
//	instrument -src /repo -dst /scratch/lungo -sim /verif/sim
package main

import (
	"flag"
	"fmt"
	"go/ast"
	"go/token"
	"go/types"
	"io"
	"io/fs"
	"os"
	"path/filepath"
	"sort"
	"strconv"
	"strings"

	"golang.org/x/tools/go/packages"
)

const modPath = "github.com/256dpi/lungo"

var swaps = map[string]string{
	"sync": modPath + "/verifsim/simsync",
	"os":   modPath + "/verifsim/simos",
	"time": modPath + "/verifsim/simtime",
}

type edit struct {
	off  int
	del  int
	text string
	seq  int
}

func die(f string, a ...any) {
	fmt.Fprintf(os.Stderr, "instrument: "+f+"\n", a...)
	os.Exit(2)
}

func copyFile(src, dst string) {
	in, err := os.Open(src)
	if err != nil {
		die("%v", err)
	}
	defer in.Close()
	if err := os.MkdirAll(filepath.Dir(dst), 0755); err != nil {
		die("%v", err)
	}
	out, err := os.Create(dst)
	if err != nil {
		die("%v", err)
	}
	if _, err := io.Copy(out, in); err != nil {
		die("%v", err)
	}
	if err := out.Close(); err != nil {
		die("%v", err)
	}
}

func main() {
	src := flag.String("src", "/repo", "module working tree")
	dst := flag.String("dst", "", "scratch destination (must not exist or be empty)")
	sim := flag.String("sim", "/verif/sim", "directory holding simrt, simsync, simos, simtime")
	gobin := flag.String("gobin", "/opt/veriftools/go1.26.8/bin", "directory of the go tool used for type loading")
	flag.Parse()
	if *dst == "" {
		die("missing -dst")
	}

	// 1. copy the module (non-test go files, go.mod, go.sum)
	nfiles := 0
	err := filepath.WalkDir(*src, func(p string, d fs.DirEntry, err error) error {
		if err != nil {
			return err
		}
		rel, _ := filepath.Rel(*src, p)
		if d.IsDir() {
			n := d.Name()
			if rel != "." && (strings.HasPrefix(n, ".") || n == "testdata" || n == "verifsim" || n == "vendor") {
				return filepath.SkipDir
			}
			return nil
		}
		if rel == "go.mod" || rel == "go.sum" {
			copyFile(p, filepath.Join(*dst, rel))
			return nil
		}
		if strings.HasSuffix(p, ".go") && !strings.HasSuffix(p, "_test.go") {
			copyFile(p, filepath.Join(*dst, rel))
			nfiles++
		}
		return nil
	})
	if err != nil {
		die("copy: %v", err)
	}

	// 2. typed load of the unmodified copy
	os.Setenv("PATH", *gobin+":"+os.Getenv("PATH"))
	os.Setenv("GOFLAGS", "-mod=mod")
	os.Setenv("GOPROXY", "off")
	os.Setenv("GOSUMDB", "off")
	os.Setenv("GOTOOLCHAIN", "local")
	cfg := &packages.Config{
		Mode:  packages.NeedName | packages.NeedFiles | packages.NeedSyntax | packages.NeedTypes | packages.NeedTypesInfo | packages.NeedCompiledGoFiles | packages.NeedImports,
		Dir:   *dst,
		Tests: false,
	}
	pkgs, err := packages.Load(cfg, "./...")
	if err != nil {
		die("load: %v", err)
	}
	bad := false
	for _, p := range pkgs {
		for _, e := range p.Errors {
			fmt.Fprintf(os.Stderr, "instrument: %s: %v\n", p.PkgPath, e)
			bad = true
		}
	}
	if bad {
		die("the module does not type-check")
	}

	// 3. rewrite
	stats := map[string]int{}
	for _, p := range pkgs {
		for i, f := range p.Syntax {
			path := p.CompiledGoFiles[i]
			rewrite(p, f, path, stats)
		}
		if p.PkgPath == modPath+"/bsonkit" {
			writeResetHook(p, filepath.Join(*dst, "bsonkit", "zz_verif_reset.go"))
		}
	}

	// 4. copy the simulator packages into the module
	for _, name := range []string{"simrt", "simsync", "simos", "simtime"} {
		entries, err := os.ReadDir(filepath.Join(*sim, name))
		if err != nil {
			die("%v", err)
		}
		for _, e := range entries {
			if strings.HasSuffix(e.Name(), ".go") && !strings.HasSuffix(e.Name(), "_test.go") {
				copyFile(filepath.Join(*sim, name, e.Name()), filepath.Join(*dst, "verifsim", name, e.Name()))
			}
		}
	}
	keys := make([]string, 0, len(stats))
	for k := range stats {
		keys = append(keys, k)
	}
	sort.Strings(keys)
	fmt.Printf("instrument: files=%d", nfiles)
	for _, k := range keys {
		fmt.Printf(" %s=%d", k, stats[k])
	}
	fmt.Println()
}

func writeResetHook(p *packages.Package, path string) {
	body := ""
	scope := p.Types.Scope()
	_, okS := scope.Lookup("tsSeconds").(*types.Var)
	_, okC := scope.Lookup("tsCounter").(*types.Var)
	if okS {
		body += "\ttsSeconds = 0\n"
	}
	if okC {
		body += "\ttsCounter = 0\n"
	}
	src := "package bsonkit\n\n// VerifResetTimestamp puts the timestamp generator back into its process-fresh state.\nfunc VerifResetTimestamp() {\n" + body + "}\n"
	if err := os.WriteFile(path, []byte(src), 0644); err != nil {
		die("%v", err)
	}
}

type rewriter struct {
	fset  *token.FileSet
	file  *token.File
	info  *types.Info
	base  string
	edits []edit
	needs bool
	stats map[string]int
	// fine: insert statement-level scheduling points (protocol packages only)
	fine   bool
	fineFn string // Fine (files with synchronisation of their own) or FineAll
	pkg     *types.Package
	imports map[string]string // import path -> local name in this file
	noFine int // > 0 inside the body of a range over a map that may iterate in native order
}

func (r *rewriter) off(p token.Pos) int { return r.file.Offset(p) }

func (r *rewriter) insert(p token.Pos, text string) {
	r.edits = append(r.edits, edit{off: r.off(p), text: text, seq: len(r.edits)})
}

func (r *rewriter) site(kind string, p token.Pos) string {
	return strconv.Quote(kind + ":" + r.base + ":" + strconv.Itoa(r.fset.Position(p).Line))
}

func rewrite(p *packages.Package, f *ast.File, path string, stats map[string]int) {
	r := &rewriter{fset: p.Fset, file: p.Fset.File(f.Pos()), info: p.TypesInfo, base: filepath.Base(path), stats: stats}
	r.fine = p.PkgPath == modPath || p.PkgPath == modPath+"/dbkit"
	r.pkg, r.imports = p.Types, map[string]string{}
	for _, imp := range f.Imports {
		ip, _ := strconv.Unquote(imp.Path.Value)
		name := ""
		if imp.Name != nil {
			name = imp.Name.Name
		} else if ip2 := p.Imports[ip]; ip2 != nil && ip2.Name != "" {
			name = ip2.Name
		} else {
			name = ip[strings.LastIndex(ip, "/")+1:]
		}
		r.imports[ip] = name
	}
	// files that use locks, channels, goroutines or contexts themselves are the protocol files: their
	// statement-level scheduling points are active at level 1, the others only at level 2
	r.fineFn = "FineAll"
	ast.Inspect(f, func(n ast.Node) bool {
		switch x := n.(type) {
		case *ast.SelectStmt, *ast.SendStmt, *ast.GoStmt:
			r.fineFn = "Fine"
		case *ast.UnaryExpr:
			if x.Op == token.ARROW {
				r.fineFn = "Fine"
			}
		case *ast.SelectorExpr:
			if sel := p.TypesInfo.Selections[x]; sel != nil {
				if named, ok := derefNamed(sel.Recv()); ok && named.Obj().Pkg() != nil && named.Obj().Pkg().Path() == "sync" {
					r.fineFn = "Fine"
				}
			}
		}
		return r.fineFn != "Fine"
	})

	// imports
	for _, imp := range f.Imports {
		ip, _ := strconv.Unquote(imp.Path.Value)
		np, ok := swaps[ip]
		if !ok {
			continue
		}
		name := ip[strings.LastIndex(ip, "/")+1:]
		if imp.Name != nil {
			name = imp.Name.Name
		}
		r.edits = append(r.edits, edit{off: r.off(imp.Pos()), del: r.off(imp.End()) - r.off(imp.Pos()), text: name + " " + strconv.Quote(np), seq: len(r.edits)})
		stats["imports"]++
	}

	r.walkDecls(f)

	if r.needs {
		r.insert(f.Name.End(), "; import verifsimrt \""+modPath+"/verifsim/simrt\"")
	}
	if len(r.edits) == 0 {
		return
	}
	src, err := os.ReadFile(path)
	if err != nil {
		die("%v", err)
	}
	sort.SliceStable(r.edits, func(i, j int) bool {
		if r.edits[i].off != r.edits[j].off {
			return r.edits[i].off > r.edits[j].off
		}
		return r.edits[i].seq > r.edits[j].seq
	})
	for _, e := range r.edits {
		src = append(src[:e.off], append([]byte(e.text), src[e.off+e.del:]...)...)
	}
	if err := os.WriteFile(path, src, 0644); err != nil {
		die("%v", err)
	}
}

func (r *rewriter) walkDecls(f *ast.File) {
	for _, d := range f.Decls {
		if fd, ok := d.(*ast.FuncDecl); ok && fd.Body != nil {
			r.block(fd.Body.List)
		} else {
			// function literals in package-level variable initialisers
			ast.Inspect(d, func(n ast.Node) bool {
				if fl, ok := n.(*ast.FuncLit); ok {
					r.block(fl.Body.List)
					return false
				}
				return true
			})
		}
	}
}

// block handles a statement list: the only place where statements can be
// inserted before/after a statement.
func (r *rewriter) block(list []ast.Stmt) {
	for _, st := range list {
		if r.fine && r.noFine == 0 {
			r.insert(st.Pos(), "verifsimrt."+r.fineFn+"("+r.site("stmt", st.Pos())+"); ")
			r.needs = true
			r.stats[strings.ToLower(r.fineFn)]++
		}
		r.stmt(st, true)
	}
}

func derefNamed(t types.Type) (*types.Named, bool) {
	if p, ok := t.(*types.Pointer); ok {
		t = p.Elem()
	}
	n, ok := t.(*types.Named)
	return n, ok
}

// ptrKeyed reports whether t is a map whose keys cannot be ordered canonically
// (pointers, interfaces, channels).
func ptrKeyed(t types.Type) bool {
	m, ok := t.Underlying().(*types.Map)
	if !ok {
		return false
	}
	switch m.Key().Underlying().(type) {
	case *types.Pointer, *types.Interface, *types.Chan:
		return true
	}
	return false
}

func isRecv(e ast.Expr) bool {
	u, ok := ast.Unparen(e).(*ast.UnaryExpr)
	return ok && u.Op == token.ARROW
}

func (r *rewriter) stmt(st ast.Stmt, inList bool) {
	switch s := st.(type) {
	case nil:
		return
	case *ast.LabeledStmt:
		// a yield must go before the label
		switch inner := s.Stmt.(type) {
		case *ast.SelectStmt:
			r.selectStmt(inner, s.Pos(), inList)
		default:
			r.stmt(s.Stmt, false)
		}
	case *ast.SelectStmt:
		r.selectStmt(s, s.Pos(), inList)
	case *ast.SendStmt:
		r.exprs(s.Chan, s.Value)
		if inList {
			r.around(s, "send")
		}
	case *ast.ExprStmt:
		r.exprs(s.X)
		if inList && isRecv(s.X) {
			r.around(s, "recv")
		}
	case *ast.AssignStmt:
		r.exprs(s.Lhs...)
		r.exprs(s.Rhs...)
		if inList && len(s.Rhs) == 1 && isRecv(s.Rhs[0]) {
			r.around(s, "recv")
		}
		// m[k] = v with a pointer-keyed map: register the key so that ranges over m can be seeded
		if r.fine && inList && len(s.Lhs) == 1 && s.Tok == token.ASSIGN {
			if ix, ok := s.Lhs[0].(*ast.IndexExpr); ok {
				if t := r.info.TypeOf(ix.X); t != nil && ptrKeyed(t) {
					switch ix.Index.(type) {
					case *ast.Ident, *ast.SelectorExpr:
						r.insert(s.End(), "; verifsimrt.NoteKey("+types.ExprString(ix.Index)+")")
						r.needs = true
						r.stats["notekeys"]++
					}
				}
			}
		}
	case *ast.BlockStmt:
		r.block(s.List)
	case *ast.IfStmt:
		r.stmt(s.Init, false)
		r.exprs(s.Cond)
		r.block(s.Body.List)
		r.stmt(s.Else, false)
	case *ast.ForStmt:
		r.stmt(s.Init, false)
		r.exprs(s.Cond)
		r.stmt(s.Post, false)
		r.block(s.Body.List)
	case *ast.RangeStmt:
		r.exprs(s.X)
		if t := r.info.TypeOf(s.X); t != nil {
			if _, ok := t.Underlying().(*types.Map); ok {
				r.insert(s.X.Pos(), "verifsimrt.MapRange(")
				r.insert(s.X.End(), ")")
				r.needs = true
				r.stats["mapranges"]++
			}
		}
		native := false
		if t := r.info.TypeOf(s.X); t != nil && ptrKeyed(t) {
			native = true
		}
		if native {
			r.noFine++
		}
		r.block(s.Body.List)
		if native {
			r.noFine--
		}
	case *ast.SwitchStmt:
		r.stmt(s.Init, false)
		r.exprs(s.Tag)
		for _, c := range s.Body.List {
			cc := c.(*ast.CaseClause)
			r.exprs(cc.List...)
			r.block(cc.Body)
		}
	case *ast.TypeSwitchStmt:
		r.stmt(s.Init, false)
		r.stmt(s.Assign, false)
		for _, c := range s.Body.List {
			r.block(c.(*ast.CaseClause).Body)
		}
	case *ast.GoStmt:
		r.exprs(s.Call)
	case *ast.DeferStmt:
		r.exprs(s.Call)
	case *ast.ReturnStmt:
		r.exprs(s.Results...)
	case *ast.DeclStmt:
		ast.Inspect(s, func(n ast.Node) bool {
			if fl, ok := n.(*ast.FuncLit); ok {
				r.block(fl.Body.List)
				return false
			}
			return true
		})
	case *ast.IncDecStmt:
		r.exprs(s.X)
	}
}

// exprs descends into function literals inside expressions.
func (r *rewriter) exprs(es ...ast.Expr) {
	for _, e := range es {
		if e == nil {
			continue
		}
		ast.Inspect(e, func(n ast.Node) bool {
			if fl, ok := n.(*ast.FuncLit); ok {
				r.block(fl.Body.List)
				return false
			}
			return true
		})
	}
}

func (r *rewriter) around(s ast.Stmt, kind string) {
	r.insert(s.Pos(), "verifsimrt.Yield("+r.site(kind+"-pre", s.Pos())+"); ")
	r.insert(s.End(), "; verifsimrt.Yield("+r.site(kind+"-post", s.Pos())+")")
	r.needs = true
	r.stats["chanops"]++
}

// recvClause describes a communication clause that receives from a channel.
type recvClause struct {
	ch      ast.Expr
	val, ok ast.Expr // bound expressions (nil or "_" when absent)
	tok     token.Token
}

// recvOnly analyses a blocking select: if every clause is a receive in one of the forms `<-ch`, `v := <-ch`,
// `v, ok := <-ch`, `v = <-ch`, `v, ok = <-ch` it returns the clauses.
func (r *rewriter) recvOnly(s *ast.SelectStmt) ([]recvClause, bool) {
	var out []recvClause
	for _, c := range s.Body.List {
		cc := c.(*ast.CommClause)
		hasLit := false
		ast.Inspect(cc.Comm, func(n ast.Node) bool {
			if _, ok := n.(*ast.FuncLit); ok {
				hasLit = true
			}
			return true
		})
		if hasLit {
			return nil, false
		}
		var rc recvClause
		switch st := cc.Comm.(type) {
		case *ast.ExprStmt:
			u, ok := ast.Unparen(st.X).(*ast.UnaryExpr)
			if !ok || u.Op != token.ARROW {
				return nil, false
			}
			rc.ch = u.X
		case *ast.AssignStmt:
			if len(st.Rhs) != 1 || len(st.Lhs) < 1 || len(st.Lhs) > 2 {
				return nil, false
			}
			u, ok := ast.Unparen(st.Rhs[0]).(*ast.UnaryExpr)
			if !ok || u.Op != token.ARROW {
				return nil, false
			}
			rc.ch, rc.tok, rc.val = u.X, st.Tok, st.Lhs[0]
			if len(st.Lhs) == 2 {
				rc.ok = st.Lhs[1]
			}
		default:
			return nil, false
		}
		out = append(out, rc)
	}
	return out, len(out) > 0
}

func isBlank(e ast.Expr) bool {
	id, ok := e.(*ast.Ident)
	return e == nil || (ok && id.Name == "_")
}

// elemTypeString renders the element type of a channel expression so that it can be written into the file,
// or "" if that needs a package the file does not import.
func (r *rewriter) elemTypeString(ch ast.Expr) string {
	t := r.info.TypeOf(ch)
	if t == nil {
		return ""
	}
	c, ok := t.Underlying().(*types.Chan)
	if !ok {
		return ""
	}
	bad := false
	s := types.TypeString(c.Elem(), func(p *types.Package) string {
		if p == r.pkg {
			return ""
		}
		if name, ok := r.imports[p.Path()]; ok {
			return name
		}
		bad = true
		return p.Name()
	})
	if bad {
		return ""
	}
	return s
}

// seededSelect rewrites a blocking receive-only select into a call of simrt.SelectRecv, which chooses among
// several ready cases in source order instead of leaving the choice to the runtime (a legal refinement of the
// select statement), followed by a switch over the chosen case.
func (r *rewriter) seededSelect(s *ast.SelectStmt, before token.Pos, clauses []recvClause) bool {
	assigns := make([]string, len(clauses))
	var chans []string
	for i, rc := range clauses {
		chans = append(chans, types.ExprString(rc.ch))
		if isBlank(rc.val) && isBlank(rc.ok) {
			continue
		}
		op := ":="
		if rc.tok == token.ASSIGN {
			op = "="
		}
		var lhs, rhs []string
		if !isBlank(rc.val) {
			ts := r.elemTypeString(rc.ch)
			if ts == "" {
				return false
			}
			lhs = append(lhs, types.ExprString(rc.val))
			rhs = append(rhs, "verifsimrt.As["+ts+"](verifVal)")
		}
		if !isBlank(rc.ok) {
			lhs = append(lhs, types.ExprString(rc.ok))
			rhs = append(rhs, "verifOK")
		}
		assigns[i] = strings.Join(lhs, ", ") + " " + op + " " + strings.Join(rhs, ", ") + "; "
	}
	head := "verifsimrt.Yield(" + r.site("select", s.Pos()) + "); { verifIdx, verifVal, verifOK := verifsimrt.SelectRecv(" + strings.Join(chans, ", ") + "); _, _ = verifVal, verifOK; switch verifIdx {"
	r.edits = append(r.edits, edit{off: r.off(before), del: r.off(s.Body.Lbrace) + 1 - r.off(before), text: head, seq: len(r.edits)})
	for i, c := range s.Body.List {
		cc := c.(*ast.CommClause)
		text := "case " + strconv.Itoa(i) + ": verifsimrt.Yield(" + r.site("wake"+strconv.Itoa(i), cc.Pos()) + "); " + assigns[i]
		r.edits = append(r.edits, edit{off: r.off(cc.Pos()), del: r.off(cc.Colon) + 1 - r.off(cc.Pos()), text: text, seq: len(r.edits)})
		r.block(cc.Body)
	}
	r.insert(s.Body.Rbrace, "default: panic(\"verifsim: no case selected\"); ")
	r.insert(s.End(), " }")
	r.needs = true
	r.stats["seeded_selects"]++
	return true
}

func (r *rewriter) selectStmt(s *ast.SelectStmt, before token.Pos, inList bool) {
	blocking := true
	for _, c := range s.Body.List {
		if c.(*ast.CommClause).Comm == nil {
			blocking = false
		}
	}
	if blocking && inList && before == s.Pos() {
		if clauses, ok := r.recvOnly(s); ok && r.seededSelect(s, before, clauses) {
			return
		}
	}
	for i, c := range s.Body.List {
		cc := c.(*ast.CommClause)
		if blocking {
			r.insert(cc.Colon+1, " verifsimrt.Yield("+r.site("wake"+strconv.Itoa(i), cc.Pos())+");")
		}
		r.block(cc.Body)
	}
	if blocking {
		if !inList {
			die("%s: blocking select in a position where no statement can be inserted", r.fset.Position(s.Pos()))
		}
		r.insert(before, "verifsimrt.Yield("+r.site("select", s.Pos())+"); ")
		r.needs = true
		r.stats["selects"]++
	} else {
		r.stats["nonblocking_selects"]++
	}
}
