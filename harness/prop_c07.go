package harness

import (
	"testing"

	"go.mongodb.org/mongo-driver/bson"
)

// C07 - unique indexes (and _id) never admit two documents with the same key.
// C15 - every index always holds exactly the documents of its collection.

func init() {
	register(&Property{ID: "C07", Gen: genC07, Exec: func(t *testing.T, p *Plan) *Outcome {
		return execSeq(t, p, seqHooks{prop: "C07", model: true})
	}})
	register(&Property{ID: "C15", Gen: genC15, Exec: func(t *testing.T, p *Plan) *Outcome {
		return execSeq(t, p, seqHooks{prop: "C15", model: true})
	}})
}

func genIndexed(prop string, seed uint64, run int, stream uint64, uniquePct int, tier string) *Plan {
	r := newRNG(seed, stream)
	g := newGen(r)
	g.colls = []string{"c0"}
	g.ids = 3 + r.IntN(3)
	g.wide = 12
	g.etxn = 8
	p := &Plan{Prop: prop, Seed: seed, Run: run, Cfg: seqCfg(r)}
	tp := TaskPlan{Name: "client"}
	// indexes first or after the data (build over existing documents)
	var ixs []Op
	for k := 1 + r.IntN(3); k > 0; k-- {
		op := g.indexOp("db", "c0")
		for op.K != "createIndex" {
			op = g.indexOp("db", "c0")
		}
		if r.IntN(100) < uniquePct {
			op.Unique = true
		}
		if op.TTL != nil {
			big := int32(100000000)
			op.TTL = &big
			op.Unique = false
		}
		ixs = append(ixs, op)
	}
	if r.IntN(2) == 0 {
		tp.Ops = append(tp.Ops, ixs...)
		if r.IntN(8) == 0 {
			// index definitions of a still empty collection must survive a reopen too
			tp.Ops = append(tp.Ops, Op{K: "restart"})
		}
		tp.Ops = append(tp.Ops, g.seedOps(100)...)
	} else {
		tp.Ops = append(tp.Ops, g.seedOps(100)...)
		tp.Ops = append(tp.Ops, ixs...)
	}
	n := deepen(tier, seed, 2+r.IntN(10))
	for i := 0; i < n; i++ {
		var op Op
		switch r.IntN(12) {
		case 0:
			// shift / swap keys under the indexes
			op = Op{K: "updateMany", DB: "db", C: "c0", F: jd(bson.D{}), U: jd(bson.D{{Key: "$inc", Value: bson.D{{Key: pick(r, "a", "b", "o.p"), Value: pick(r, int32(1), int32(-1))}}}})}
		case 1:
			// multikey arity changes
			op = Op{K: "updateMany", DB: "db", C: "c0", F: jd(g.filter()), U: jd(bson.D{{Key: pick(r, "$push", "$addToSet", "$pull"), Value: bson.D{{Key: "t", Value: g.num()}}}})}
		case 2:
			// move documents in and out of the partial filter (a > 1)
			op = Op{K: "updateMany", DB: "db", C: "c0", F: jd(g.filter()), U: jd(bson.D{{Key: "$set", Value: bson.D{{Key: "a", Value: g.num()}}}})}
		case 3, 4:
			op = g.indexOp("db", "c0")
		default:
			op = g.crud()
			op.DB, op.C = "db", "c0"
		}
		if op.TTL != nil {
			big := int32(100000000)
			op.TTL = &big
		}
		tp.Ops = append(tp.Ops, op)
		if p.Cfg.Store == "file" && r.IntN(12) == 0 {
			tp.Ops = append(tp.Ops, Op{K: "restart"})
		}
	}
	if r.IntN(10) == 0 {
		// a commit that fails in the store: its index changes and documents must not stay behind
		p.Faults = append(p.Faults, Fault{Kind: "store-before", At: 1 + r.IntN(len(tp.Ops))})
	}
	p.Tasks = []TaskPlan{tp}
	return p
}

func genC07(seed uint64, run int, tier string) *Plan {
	return genIndexed("C07", seed, run, 7, 85, tier)
}
func genC15(seed uint64, run int, tier string) *Plan {
	return genIndexed("C15", seed, run, 15, 40, tier)
}
