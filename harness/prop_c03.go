package harness

import (
	"context"
	"fmt"
	"testing"

	"github.com/256dpi/lungo"
	"github.com/256dpi/lungo/bsonkit"
	"github.com/256dpi/lungo/verifsim/simrt"
	"go.mongodb.org/mongo-driver/bson"

	"verif/harness/model"
)

// C03 - transactions are all-or-nothing and readers see immutable snapshots.

func init() {
	register(&Property{ID: "C03", Gen: genC03, Exec: execC03})
}

type snapshot struct {
	kind   string
	at     int // commits completed when taken
	cat    *lungo.Catalog
	txn    *lungo.Transaction
	list   bsonkit.List
	csr    lungo.ICursor
	filter bson.D
	ns     lungo.Handle
	dump   string
	inv    int
	ret    int
	used   bool
}

func listDump(l bsonkit.List) string {
	s := ""
	for _, d := range l {
		s += string(docBytes(d)) + "|"
	}
	return s
}

func genC03(seed uint64, run int, tier string) *Plan {
	p := genC04Plain(seed^0xc03, run, tier)
	r := newRNG(seed, 3)
	p.Prop = "C03"
	p.Cfg.Strategy = pick(r, "nonpreempt", "nonpreempt", "nonpreempt", "random", "pct", "sticky")
	// more structural churn between the transactions
	for ti := range p.Tasks {
		var ops []Op
		for _, op := range p.Tasks[ti].Ops {
			ops = append(ops, op)
			switch r.IntN(21) {
			case 18:
				// reads that sort, project or collect: they work on copies, never on the stored documents
				op := Op{K: "find", DB: "db", C: "k", F: jd(bson.D{}), S: jd(pick(r, bson.D{{Key: "n", Value: int32(-1)}}, bson.D{{Key: "by", Value: int32(1)}}, bson.D{{Key: "_id", Value: int32(-1)}}))}
				if r.IntN(2) == 0 {
					op.P = jd(pick(r, bson.D{{Key: "o.p", Value: int32(0)}}, bson.D{{Key: "o.q.z", Value: int32(0)}}, bson.D{{Key: "n", Value: int32(1)}}))
				}
				ops = append(ops, op)
			case 19:
				ops = append(ops, Op{K: "find", DB: "db", C: "k", F: jd(bson.D{{Key: "items", Value: bson.D{{Key: "$exists", Value: true}}}}), P: jd(pick(r, bson.D{{Key: "o.p", Value: int32(0)}}, bson.D{{Key: "o.q", Value: int32(0)}}))})
			case 20:
				ops = append(ops, Op{K: "distinct", DB: "db", C: "k", Field: pick(r, "t", "by", "n"), F: jd(pick(r, bson.D{}, bson.D{{Key: "items", Value: bson.D{{Key: "$exists", Value: true}}}}))})
			case 14:
				// documents with embedded documents and arrays of documents: snapshots must not share them with later versions
				id := int32(r.IntN(3))
				ops = append(ops, Op{K: "replaceOne", DB: "db", C: "k", Upsert: true, F: jd(bson.D{{Key: "_id", Value: id}}), D: jd(bson.D{{Key: "n", Value: int32(0)},
					{Key: "items", Value: bson.A{bson.D{{Key: "k", Value: int32(1)}, {Key: "v", Value: "x"}}, bson.D{{Key: "k", Value: int32(2)}, {Key: "v", Value: "y"}}}},
					{Key: "o", Value: bson.D{{Key: "p", Value: int32(1)}, {Key: "q", Value: bson.D{{Key: "z", Value: "deep"}}}}}, {Key: "t", Value: pick(r, bson.A{int32(1), int32(2)}, bson.A{int32(3), int32(1), int32(2)}, bson.A{int32(2), int32(0)})}})})
			case 15, 16:
				// updates through arrays and embedded documents
				u := pick(r,
					bson.D{{Key: "$inc", Value: bson.D{{Key: "items.0.k", Value: int32(1)}}}},
					bson.D{{Key: "$set", Value: bson.D{{Key: "items.1.v", Value: fmt.Sprintf("v%d", r.IntN(1000))}}}},
					bson.D{{Key: "$set", Value: bson.D{{Key: "o.q.z", Value: fmt.Sprintf("z%d", r.IntN(1000))}}}},
					bson.D{{Key: "$inc", Value: bson.D{{Key: "o.p", Value: int32(1)}}}},
					bson.D{{Key: "$push", Value: bson.D{{Key: "t", Value: int32(r.IntN(9))}}}},
					bson.D{{Key: "$pop", Value: bson.D{{Key: "t", Value: int32(1)}}}},
					bson.D{{Key: "$inc", Value: bson.D{{Key: "t.0", Value: int32(1)}}}})
				op := Op{K: pick(r, "updateOne", "updateMany"), DB: "db", C: "k", F: jd(bson.D{{Key: "items", Value: bson.D{{Key: "$exists", Value: true}}}}), U: jd(u)}
				if r.IntN(3) == 0 {
					// inside a transaction that is aborted or ended: must leave no trace in anybody's snapshot
					op = Op{K: "s.txn", End: pick(r, "abort", "end", "commit"), Tag: "n", Sub: []Op{op}}
				}
				ops = append(ops, op)
			case 17:
				ops = append(ops, Op{K: "deleteOne", DB: "db", C: "k", F: jd(bson.D{{Key: "items", Value: bson.D{{Key: "$exists", Value: true}}}})})
			case 0:
				ops = append(ops, Op{K: "createIndex", DB: "db", C: "k", D: jd(bson.D{{Key: pick(r, "n", "by", "m"), Value: int32(1)}})})
			case 1:
				ops = append(ops, Op{K: "dropIndex", DB: "db", C: "k", Name: pick(r, "n_1", "by_1", "m_1")})
			case 2:
				ops = append(ops, Op{K: "dropColl", DB: "db", C: "k"})
			case 3:
				ops = append(ops, Op{K: "s.txn", End: "end", Tag: "e", Sub: []Op{{K: "updateMany", DB: "db", C: "k", F: jd(bson.D{}), U: jd(bson.D{{Key: "$inc", Value: bson.D{{Key: "m", Value: int32(1)}}}})}}})
			}
		}
		p.Tasks[ti].Ops = ops
	}
	// the snapshot taker
	tp := TaskPlan{Name: "snapper", Role: "snapper"}
	for n := 2 + r.IntN(8); n > 0; n-- {
		switch r.IntN(6) {
		case 0, 1, 2:
			op := Op{K: "snap", Scope: pick(r, "catalog", "rotxn", "cursor", "cursor", "ixcursor"), DB: "db", C: "k"}
			op.F = jd(pick(r, bson.D{}, bson.D{{Key: "n", Value: bson.D{{Key: "$gte", Value: int32(1)}}}}, bson.D{{Key: "_id", Value: int32(0)}}))
			tp.Ops = append(tp.Ops, op)
		case 3:
			tp.Ops = append(tp.Ops, Op{K: "recheck"})
		case 4:
			tp.Ops = append(tp.Ops, Op{K: "sleep", Ms: int64(1 + r.IntN(200))})
		default:
			tp.Ops = append(tp.Ops, Op{K: "yield"})
		}
	}
	if r.IntN(5) == 0 {
		// one cursor advanced by all tasks (with statement-level scheduling points: the cursor's own critical
		// sections are short)
		if p.Cfg.Fine == 0 {
			p.Cfg.Fine = 1
		}
		tp.Ops = append([]Op{{K: "sleep", Ms: int64(1 + r.IntN(100))}, {K: "csr.share"}}, tp.Ops...)
		for ti := range p.Tasks {
			for k := 2 + r.IntN(4); k > 0; k-- {
				at := r.IntN(len(p.Tasks[ti].Ops) + 1)
				ops := append([]Op{}, p.Tasks[ti].Ops[:at]...)
				ops = append(ops, Op{K: "csr.next", N: 1 + r.IntN(3)})
				p.Tasks[ti].Ops = append(ops, p.Tasks[ti].Ops[at:]...)
			}
		}
	}
	if r.IntN(5) == 0 {
		// retention with second-scale ages, idle periods and frequent expiry ticks (commits that change nothing):
		// trimming builds a new change log, whatever a snapshot holds keeps the old one
		p.Cfg.MinOplog = 1 + r.IntN(3)
		p.Cfg.MaxOplog = p.Cfg.MinOplog + r.IntN(3)
		p.Cfg.MinAgeS, p.Cfg.MaxAgeS = 1, pick(r, int64(1), 2, 3600)
		p.Cfg.ExpireMs = pick(r, int64(200), 500)
		var ops []Op
		for _, op := range tp.Ops {
			ops = append(ops, op)
			if op.K == "snap" {
				ops = append(ops, Op{K: "sleep", Ms: int64(1100 + r.IntN(2500))}, Op{K: "recheck"})
			}
		}
		tp.Ops = ops
	}
	p.Tasks = append(p.Tasks, tp)
	if r.IntN(4) == 0 && len(p.Faults) == 0 {
		p.Faults = append(p.Faults, Fault{Kind: pick(r, "store-before", "store-slow-fail"), At: r.IntN(8), Ms: int64(1 + r.IntN(1500))})
	}
	return p
}

// sharedCursor is one cursor that several tasks advance concurrently: whatever the interleaving, the number of
// successful Next calls equals the number of documents of the snapshot the cursor was created on.
type sharedCursor struct {
	csr      lungo.ICursor
	inv, ret int
	nexts    int
}

func execC03(t *testing.T, plan *Plan) *Outcome {
	var snaps []*snapshot
	var shared *sharedCursor
	commitDumps := map[int]string{}
	return execConc(t, plan, "C03", func(e *Env, actors []*actor) {
		// every committed catalog is itself a snapshot: remember its dump
		e.onCommit = append(e.onCommit, func(c *CommitRec) { commitDumps[c.Seq] = catalogDump(c.Cat, true) })
		for _, a := range actors {
			a.special = func(a *actor, op *Op) bool {
				switch op.K {
				case "csr.share":
					if shared == nil {
						inv := len(e.commits)
						csr, err := e.client.Database("db").Collection("k").Find(context.Background(), bson.D{})
						if err == nil {
							shared = &sharedCursor{csr: csr, inv: inv, ret: len(e.commits)}
							e.probe("shared-cursor")
						}
					}
					return true
				case "csr.next":
					if shared != nil {
						for n := op.N; n > 0; n-- {
							if shared.csr.Next(context.Background()) {
								shared.nexts++
							}
						}
					}
					return true
				case "snap":
					if s := takeSnapshot(e, a, op); s != nil {
						snaps = append(snaps, s)
						e.probe("snapshot:" + s.kind)
					}
					return true
				case "recheck":
					recheckSnapshots(e, snaps, commitDumps, false)
					return true
				}
				return false
			}
		}
	}, func(e *Env, actors []*actor) {
		done := false
		e.sim.Go("final-recheck", false, func(*simrt.Task) {
			if shared != nil {
				for k := 0; k < 1000 && shared.csr.Next(context.Background()); k++ {
					shared.nexts++ // (bounded: a cursor that never ends is a wrong count too)
				}
				ok := false
				var sizes []int
				for j := shared.inv; j <= shared.ret; j++ {
					n := 0
					if c := e.stateAt(j).Namespaces[lungo.Handle{"db", "k"}]; c != nil {
						n = len(c.Documents.List)
					}
					sizes = append(sizes, n)
					ok = ok || n == shared.nexts
				}
				if !ok {
					e.violate(violation("C03", "snapshot-changed", "shared-cursor", fmt.Sprintf("a cursor advanced by several tasks yielded %d documents, the collection held %v when it was created", shared.nexts, sizes)))
					return
				}
			}
			recheckSnapshots(e, snaps, commitDumps, true)
			done = true
		})
		e.sim.Run()
		if !done && !e.failed() {
			e.out.Harness = "final snapshot check did not finish"
		}
	})
}

func takeSnapshot(e *Env, a *actor, op *Op) *snapshot {
	s := &snapshot{kind: op.Scope, at: len(e.commits), ns: lungo.Handle{op.DB, op.C}, filter: op.F.doc()}
	switch op.Scope {
	case "catalog":
		s.cat = e.engine.Catalog()
		s.dump = catalogDump(s.cat, true)
	case "rotxn":
		txn, err := e.engine.Begin(context.Background(), false)
		if err != nil {
			return nil
		}
		s.txn = txn
		s.cat = txn.Catalog()
		s.dump = catalogDump(s.cat, true)
		res, err := txn.Find(s.ns, bsonkit.MustConvert(nonNil(s.filter)), nil, 0, 0)
		if err == nil {
			s.list = res.Matched
			s.dump += "#" + listDump(s.list)
		}
	case "cursor":
		s.inv = len(e.commits)
		csr, err := e.client.Database(op.DB).Collection(op.C).Find(context.Background(), nonNil(s.filter))
		s.ret = len(e.commits)
		if err != nil {
			return nil
		}
		s.csr = csr
	case "ixcursor":
		s.inv = len(e.commits)
		csr, err := e.client.Database(op.DB).Collection(op.C).Indexes().List(context.Background())
		s.ret = len(e.commits)
		if err != nil {
			return nil
		}
		s.csr = csr
	}
	return s
}

// stateAt returns the catalog after j commits.
func (e *Env) stateAt(j int) *lungo.Catalog {
	if j == 0 {
		if len(e.commits) > 0 && e.commits[0].Prev != nil {
			return e.commits[0].Prev
		}
		return e.baseCat
	}
	return e.commits[j-1].Cat
}

func recheckSnapshots(e *Env, snaps []*snapshot, commitDumps map[int]string, final bool) {
	for i, s := range snaps {
		switch s.kind {
		case "catalog", "rotxn":
			now := catalogDump(s.cat, true)
			if s.kind == "rotxn" {
				// through the old handle
				now = catalogDump(s.txn.Catalog(), true)
				res, err := s.txn.Find(s.ns, bsonkit.MustConvert(nonNil(s.filter)), nil, 0, 0)
				if err == nil {
					if listDump(res.Matched) != listDump(s.list) {
						e.violate(violation("C03", "snapshot-changed", "rotxn-find", fmt.Sprintf("a read-only transaction taken after %d commits answers a query differently after %d commits", s.at, len(e.commits))))
						return
					}
					now += "#" + listDump(s.list)
				}
			}
			if now != s.dump {
				e.violate(violation("C03", "snapshot-changed", s.kind, fmt.Sprintf("snapshot %d (%s, taken after %d commits) is no longer byte-identical after %d commits:\n--- then\n%s--- now\n%s", i, s.kind, s.at, len(e.commits), clip(s.dump), clip(now))))
				return
			}
		case "cursor", "ixcursor":
			if s.used || (!final && len(e.commits) == s.ret) {
				continue
			}
			s.used = true
			var docs []bson.D
			if err := s.csr.All(context.Background(), &docs); err != nil {
				continue
			}
			got := ""
			for _, d := range docs {
				got += string(model.Bytes(d)) + "|"
			}
			ok := false
			want := ""
			for j := s.inv; j <= s.ret && !ok; j++ {
				cat := e.stateAt(j)
				want = ""
				if s.kind == "cursor" {
					if c := cat.Namespaces[s.ns]; c != nil {
						for _, d := range c.Documents.List {
							dd := toD(d)
							if m, err := model.Match(dd, s.filter); err == nil && m {
								want += string(model.Bytes(dd)) + "|"
							}
						}
					}
				} else {
					st := model.New()
					if c := cat.Namespaces[s.ns]; c != nil {
						mc := &model.Coll{}
						for _, n := range indexNames(c) {
							mc.Indexes = append(mc.Indexes, modelIndex(n, c.Indexes[n].Config()))
						}
						st.Colls[model.NS{DB: s.ns[0], Coll: s.ns[1]}] = mc
					}
					for _, d := range st.ListIndexes(model.NS{DB: s.ns[0], Coll: s.ns[1]}).Docs {
						want += string(model.Bytes(d)) + "|"
					}
				}
				ok = want == got
			}
			if !ok {
				e.violate(violation("C03", "snapshot-changed", s.kind, fmt.Sprintf("an open cursor created after %d..%d commits returns, after %d commits, documents that match no committed state of that moment", s.inv, s.ret, len(e.commits))))
				return
			}
		}
	}
	// all committed catalogs
	for k, rec := range e.commits {
		if want, ok := commitDumps[k]; ok && catalogDump(rec.Cat, true) != want {
			e.violate(violation("C03", "snapshot-changed", "committed-catalog", fmt.Sprintf("the catalog committed as number %d is no longer byte-identical after %d commits:\n--- then\n%s--- now\n%s", k, len(e.commits), clip(want), clip(catalogDump(rec.Cat, true)))))
			return
		}
	}
	if len(e.commits) > 0 {
		e.probe("snapshots-rechecked")
	}
}

func clip(s string) string {
	if len(s) > 1500 {
		return s[:1500] + "...\n"
	}
	return s
}
