#!/usr/bin/env python3
"""Regenerates /verif/MANIFEST.json from the table below."""
import json, os

VERIF = os.path.dirname(os.path.dirname(os.path.abspath(__file__)))

NA = [
 ("C10", "pure function of (document, filter): no schedule, clock, fault, restart or interleaving for a simulator to vary (DESIGN.md 9.10)"),
 ("C11", "pure function of (document, update, array filters); its one clock read ($currentDate) is covered inside C01's model (DESIGN.md 9.11)"),
 ("C12", "pure function over pairs/triples of values; nothing for deterministic simulation to schedule or fault (DESIGN.md 9.12)"),
 ("C13", "pure function of (collection contents, query); no concurrency, time or I/O involved (DESIGN.md 9.13)"),
 ("C14", "pure function of (document, projection); the non-mutation clause for stored documents is covered by C01's contents comparison after every call and C03's snapshot monitor (DESIGN.md 9.14)"),
 ("C17", "statement about sequential programs (call, mutate argument or result, observe): no schedule, clock, fault or restart in it (DESIGN.md 9.17)"),
 ("C20", "robustness over an input space with no schedule, clock or fault dimension; the engine-stays-usable clause is decided under C16 (DESIGN.md 9.20)"),
]

SAMPLING = "sampling, not enumeration; the reference model covers the value/operator domain of DESIGN.md section 8 only; "

CHECKS = {
 "C01": ("exploration", "9.1",
   "seeded histories of driver calls (CRUD, bulk, upsert, find-one-and-modify, index and drop calls, sleeps, clean restarts on the simulated disk) executed against the instrumented current tree with the expiry goroutine alive; every call's result and the full contents/index definitions of every collection are compared with an independent sequential reference model after every call and after every restart; 5 % of the calls repeat the previous call verbatim, a tenth of the runs seed a collection of 13-40 documents with ties under every sort key, decoded results are copied and then scribbled over in place",
   SAMPLING + "fault-free configuration (one client), so the schedule dimension is the client vs. the engine's expiry goroutine only; projections carry at most one $slice or $elemMatch; documents are handed over by value or by pointer and overwritten by the caller afterwards",
   "deterministic simulation: seeded call histories vs. executable reference model, checked call by call"),
 "C02": ("exploration", "9.2",
   "histories biased towards writes that fail part-way (k-th matched document, k-th batch item, index builds over conflicting data, injected store failures before/after persisting); after a failing single-item call the byte dump of every namespace incl. change log and index contents must equal the dump before; batches must equal the model's 'exactly the successful items' and grow the change log by exactly that many events; 15 % of the update calls use operators outside the model's domain ($push modifiers, $pullAll, $bit, positional operators with array filters, numeric index paths) and are judged by the before/after dump alone; session transactions whose bodies contain failing calls (also failing upserts into collections that do not exist yet) and then commit or abort, scripted engine-level transactions (Begin, Transaction.* steps, Commit) in which the transaction's catalog must be byte-identical after every failing step, and 30 % of the runs with second-scale retention ages and idle periods (a failing call may not trim the change log either)",
   SAMPLING + "store faults are injected at the Store seam; index calls inside a session transaction and documents with an array _id inside an engine-level transaction are judged without the model (refused: no trace; accepted: follows)",
   "deterministic simulation: generated failing writes + store fault injection, before/after byte dumps and reference model"),
 "C03": ("exploration", "9.3",
   "2-4 client tasks running single calls, session transactions (commit / abort / end / failing store) and structural churn (index builds and drops, collection drops, documents with embedded documents and arrays of documents updated through array positions) under the seeded scheduler (18 % of the runs with statement-level scheduling points in the engine / session / stream / transaction code), plus a snapshot task that takes Engine.Catalog() pointers, read-only transactions and un-iterated cursors at seeded moments; oracles: the commit-order replay of C04 (an aborted or failed transaction leaves no trace, a committed one appears at once) and byte dumps of every snapshot and of every committed catalog, which must stay identical through the old handle whatever commits later; cursors must return the documents of one committed state of their creation window; readers also sort, project (nested exclusions) and collect distinct values; a fifth of the runs let all tasks advance one cursor (successful Next calls = size of its snapshot); cursors opened in the middle of a transaction body are read at its end; a transaction that acknowledged its commit must have made one",
   SAMPLING + "snapshots are re-dumped at seeded recheck points and at the end of the run, not after every step",
   "deterministic simulation: PRNG scheduler + store fault injection, snapshot byte-dump monitor and commit-order reference model"),
 "C04": ("exploration", "9.4",
   "2-4 client tasks preempted at every lock, blocking select and store call over a tiny key space: tagged blind writes, $inc counters, find-one-and-update, read-modify-write inside session transactions, two-document transfers, multi-updates, reads, failing writes; oracle 1: the commit history recorded at the store seam is the serial order - the model applies the committing calls in that order and must reproduce every returned result and every committed catalog, non-committing calls must equal the model on a state of their invoke/return window; oracle 2: porcupine on the invoke/return history of short runs (Illegal = violation, Unknown = inconclusive, never reported); oracle 3: conservation of transfer sums and counter = successful increments; 18 % of the runs use statement-level scheduling points (every statement of the engine / session / stream / transaction / semaphore code is a preemption point); 8 % of the runs let 2-3 goroutines increment counters inside one shared session transaction (k-th increment returns k, committed counter = successful increments); two tasks inside Store at once are reported as two writers; in half of the shared-transaction runs another goroutine commits the transaction while the members are still writing (every acknowledged write counts exactly once), members also run expiry passes on the shared transaction and write documents of their own; sorted find-one-and-update 'queue pops'; file-backed runs with a slow disk",
   SAMPLING + "porcupine is applied to histories of at most 24 operations",
   "deterministic simulation: PRNG scheduler (random / PCT / sticky / non-preemptive) down to statement granularity, store latency and error injection, commit-order replay + porcupine linearizability check"),
 "C05": ("fault_enumeration", "9.5",
   "engine on the real FileStore over the simulated disk (volatile vs durable state, numbered fault points at every open/write/sync/rename/dir-sync/remove); for each sampled history of 1-8 commits the sweep places one fault at every commit x every fault point x {kill before effect, kill after effect} x power-loss outcomes (subsets of pending directory operations, torn/zeroed/old data blocks) x every applicable errno incl. short writes; after a kill a fresh engine must load, and the loaded dump must be the last acknowledged state or the state of the commit in flight, never garbage or a mixture; after an error the call fails, the visible state is the old one, and the next write must reach its commit (a later call that runs into the writer-slot timeout is a violation)",
   "fault points are enumerated exhaustively per sampled history (thorough: half of the budget; quick: a third), histories themselves are sampled; power-loss outcomes are enumerated up to 6 pending items and sampled beyond; the simulated disk follows the POSIX-style model of DESIGN.md 3.4; error numbers incl. ENOENT on open/rename; a fifth of the sampled histories add retention by age, an idle period and a disk-full period (every open/write fails with ENOSPC)",
   "deterministic simulation: simulated disk with crash / power-loss / errno injection, enumerated per history, old-or-new oracle over the recorded commit history"),
 "C06": ("exploration", "9.6",
   "histories over the rich value pool (all BSON types of DESIGN.md section 8, all index option combinations) on the file store with clean restarts at seeded points: close the engine, open a new one on the same simulated disk with process-fresh globals, continue against the same model; oracle: byte dump of every namespace (documents in natural order, index name/key/unique/partial/expiry, index order, whole change log) before close vs. after open, plus enforcement probes per unique index (incl. _id) on both sides; half of the runs use second-scale retention ages with sleeps so that commits trim the change log before a restart; a fifth of the runs let one or two commits fail in the store before anything is persisted (the call reports the error; what the engine serves afterwards must still be what the next reload returns); the reopened catalog is also compared with the reference model",
   SAMPLING + "index order is compared modulo ties",
   "deterministic simulation: restart and store-error injection as generated operations over the simulated disk, before/after byte dumps and reference model"),
 "C07": ("exploration", "9.7",
   "collision-rich histories under unique / unique-partial / unique-multikey / unique-compound indexes, index builds over existing data, key shifts, restarts; invariant on every committed catalog: no two documents share a key tuple under a unique index (independent key extractor); _id is unique whether or not the catalog still lists its index; exactness: a call is rejected for uniqueness iff the model's final state would contain such a pair; disagreements owned by other properties re-base the model and the run continues",
   SAMPLING + "index keys on top-level fields, embedded-document paths and arrays of scalars",
   "deterministic simulation: per-commit invariant monitor + reference model exactness"),
 "C08": ("exploration", "9.8",
   "histories of writes, failed writes, drops, restarts and injected store failures with randomised retention settings while simulated time advances by fractions of a second up to days and the wall clock steps forwards/backwards; at every commit S(k-1)->S(k) from the store seam: the log is the earlier log minus a prefix plus appended events, ids strictly increasing and never reused in the run, replaying the appended events onto S(k-1) reproduces S(k), update descriptions applied to the previous version give the new version up to field order, no event without change, retention safety (min size / min age) and progress (max size / max age) with a 1.5 s tolerance around age boundaries; 25 % of the update calls combine 1-3 operators outside the reference model's domain ($push with $position/$slice/$sort, $pullAll, $bit, $[] and $[id] with array filters, numeric index paths, $rename into embedded documents), judged by the replay and update-description oracles alone",
   SAMPLING + "age clauses are evaluated with the log's own monotonic notion of time when the wall clock was stepped backwards; documented option defaults (100/1000, 5m/1h) are assumed when a plan leaves them unset",
   "deterministic simulation: simulated clock + per-commit replay oracle over the recorded commit history"),
 "C09": ("exploration", "9.9",
   "1-2 writer tasks (tagged writes over 2 databases x 2 collections, drops, database drops) and 1-3 consumer tasks (client / database / collection scope; start now, resume-after, start-after, start-at-time; Next with simulated deadlines, TryNext, Close, re-Watch) under the seeded scheduler with small retention settings; oracle: the event log reconstructed from the commit history - each stream must deliver a contiguous run of its scope-filtered log, each event once, in order, from an admissible start position, end with the drop event + invalidate where the statement says so, report a lost position when retention overtook it, and a Next that waited out its deadline although a matching event was committed strictly earlier is a lost wake-up; at the end every open stream must have delivered everything it was owed; events are identified by their full bytes, two delivered events may not share a resume token, a lost-position error is only accepted if retention really removed an event at or after the stream's start position; 6 % of the runs are the scenario 'stream opened on an empty log, the first trimming commit fails in the store' (half of them come back later from the time or token of an event seen early); start positions include StartAtOperationTime at the cluster time of a delivered event (inclusive; refused with a lost position once retention discarded it); the lost-position rule uses what a stream is known to have examined (deliveries and polls that found nothing); wall-clock steps backwards; a run that ends in a lock cycle between writers and consumers is a stalled delivery; 18 % of the runs use statement-level scheduling points",
   SAMPLING + "the scheduling point between releasing the stream lock and waiting on the signal is an instrumented yield",
   "deterministic simulation: PRNG scheduler + simulated clock, delivery oracle over the recorded commit history, bounded-liveness probe"),
 "C15": ("exploration", "9.15",
   "histories of CRUD and index-management calls incl. partial-filter transitions and multikey arity changes, failed calls, restarts; invariant on every committed catalog: each index lists exactly the documents matching its partial filter, once, in key order, and equals an index rebuilt from scratch; index management (idempotent create, create conflicting by key or by option - partial filter, unique flag, expiry - fails, _id index never dropped) compared with the model, also after every restart",
   SAMPLING + "the rebuilt-from-scratch comparison uses lungo's own index builder on the same documents",
   "deterministic simulation: per-commit invariant monitor + reference model for index management"),
 "C16": ("exploration", "9.16",
   "seeded search over interleavings (locks, blocking selects, store calls; in 18 % of the runs every statement of the engine / session / stream / semaphore code) and single faults of 2-4 actors mixing engine-, session- and driver-level calls, shared sessions, streams and shutdown; sessions kept across operations, streams several actors wait on, a 'waiters at shutdown' scenario (6 % of the runs); monitors: at most one writer (held write transactions and tasks inside Store), no panic, no lock cycle / stall, writer slot free again (probe write < 1 simulated second after faults stop), closed error after shutdown, no background goroutine left, no commit inside Store when Close returns, simple calls and consumers in flight at shutdown come back within a simulated second, Close itself takes no simulated time unless the plan makes a commit slow",
   "sampling, not enumeration; interleavings at lock/select/store granularity, at statement granularity in a fraction of the runs; token timeouts are not judged while a shared session may legitimately hold the slot or while the scheduler lets time pass freely (the end-of-run probe still decides leaks)",
   "deterministic simulation: PRNG scheduler over instrumented locks/selects + fault injection + bounded liveness probe"),
 "C18": ("exploration", "9.18",
   "1-3 uploader tasks, each walking one file through a seeded life cycle on a bucket object shared with the others (untracked or tracked: open, fragmented writes incl. empty writes, suspend / resume, close, claim, abort, delete + cleanup, UploadFromStream from a simulated reader with short reads / EOF-with-data / injected error, DownloadToStream into a simulated writer that may fail), reader tasks running read/skip/seek scripts on a file uploaded beforehand, a janitor task running Cleanup, all interleaved by the seeded scheduler with one injected store failure or latency in some runs; sizes: empty, around multiples of the chunk size, and (1 run in 120 quick, 1 in 25 thorough) around the 16 MiB upload buffer with 1-5 MiB chunks; oracle: content function + bytes.Reader compared call by call (bytes, positions, EOF and error behaviour), file record length / chunk size exact, chunks numbered 0..n-1 with all but the last full and equal to the content, nothing left after Abort, Delete (+Cleanup) or a reader failure; after an injected store failure the upload may fail but an Abort must then leave nothing (a Close retried after a failure that persisted nothing either completes the file exactly or fails and aborts cleanly); a second upload under the id of a stored file is refused and leaves it byte-identical; 10 % of the runs are the aging variant (tracked uploads pausing for simulated seconds next to a janitor calling Cleanup with an age of that order: a marker that became 'uploaded' at T may be taken by Cleanup only in a commit at T + age or later; claims inside a transaction), 8 % share one stream object between two tasks (writer + closer: every acknowledged write is in the file; reader + seeker: some merge of the two call sequences on an in-memory reader explains all results) or complete two uploads under one file name with overlapping lifetimes (revisions follow completion order)",
   "sampling, not enumeration; a ClaimUpload or UploadFromStream interrupted by an injected store failure is not judged further (the statement does not cover it); outside the aging variant Cleanup runs with an age no upload of the run reaches; in the aging variant uploads collected while still uploading are not judged (documented behaviour); a Drop racing uploads is not judged",
   "deterministic simulation: PRNG scheduler over the shared bucket, simulated reader / writer / store faults, in-memory reference reader and stored-document invariants"),
 "C19": ("exploration", "9.19",
   "histories of writes and TTL index management (several TTL indexes per collection, zero and large expiry, date / non-date / array values, partial filters) while simulated time advances and the engine's real expiry loop runs on the simulated ticker; every commit made by the loop (or by a direct Transaction.Expire) is judged against the model: it removes every document a TTL index makes expired at that moment, nothing else, logs a delete event for each and leaves other data and index definitions alone; at the end, after two more intervals, nothing that was clearly expired may be left; a failing pass must not stop the loop; file-backed runs close and reopen the engine, after which the TTL definitions must still be the model's; expiry on a compound key must be refused",
   SAMPLING + "documents within 2 ms of the expiry boundary may or may not be removed by a pass; when the client steps the wall clock at the very instant of a pass, the pass is judged against both readings",
   "deterministic simulation: simulated clock drives the real expiry goroutine, per-commit oracle against the reference model"),
}

def main():
    checks = []
    for pid in sorted(CHECKS):
        level, ref, text, note, tech = CHECKS[pid]
        checks.append({
            "property_id": pid,
            "quick_cmd": "./verif check %s --tier quick" % pid,
            "thorough_cmd": "./verif check %s --tier thorough" % pid,
            "evidence_file": "/verif/evidence/%s.json" % pid,
            "replay_cmd_template": "./verif replay {path}",
            "engine": "lungo-dst",
            "level_claimed": {"category": level, "text": text, "design_ref": ref},
            "level_note": note,
            "technique": tech,
        })
    m = {
        "version": 1,
        "setup_cmd": "./verif setup",
        "hooks": {
            "guard": "none",
            "enable": "no hooks are committed to /repo: every check copies /repo's working tree to a scratch directory and instruments the copy (tools/instrument: sync/os/time imports -> verifsim shims, yields at blocking selects, statement-level scheduling points in the protocol packages, seeded map ranges)",
            "baseline_off_cmd": "cd /repo && go test -mod=mod -json -vet=off -count=1 -timeout 25m ./...",
            "source_commits": [],
            "add_only": True,
        },
        "engines": [{
            "name": "lungo-dst", "path": "/verif", "serves_properties": sorted(CHECKS),
            "kind_free_text": "deterministic simulator: Go 1.26.8 testing/synctest bubble + own PRNG scheduler (sim/simrt), simulated locks (sim/simsync), disk (sim/simos), wall clock (sim/simtime); harness with reference model, plan generator, executor, minimiser (harness/); orchestrator ./verif",
        }],
        "checks": checks,
        "notes": "All checks rebuild from /repo's working tree (copy + instrument + go test -c) into a scratch directory under /tmp that is removed afterwards. Exit 2 = build/harness trouble, never a violation. Genuine defects found and repaired so far are listed in known_findings.jsonl (status fixed).",
        "not_applicable": [{"property_id": p, "reason": r} for p, r in NA],
    }
    claimed = set(CHECKS)
    assert not (claimed & {p for p, _ in NA})
    json.dump(m, open(os.path.join(VERIF, "MANIFEST.json"), "w"), indent=1)
    print("manifest: %d checks, %d not applicable" % (len(checks), len(NA)))

if __name__ == "__main__":
    main()
