package harness

import (
	"context"
	"fmt"
	"testing"
	"time"

	"github.com/256dpi/lungo"
	"go.mongodb.org/mongo-driver/bson"
	"go.mongodb.org/mongo-driver/bson/primitive"

	"verif/harness/model"
)

// C19 - TTL expiry deletes exactly the expired documents and nothing else.

func init() {
	register(&Property{ID: "C19", Gen: genC19, Exec: func(t *testing.T, p *Plan) *Outcome {
		return execSeq(t, p, seqHooks{prop: "C19", model: true, commit: c19Commit, final: c19Final, after: c19After})
	}})
}

func stateFromCatalog(cat *lungo.Catalog) *model.State {
	st := model.New()
	for _, h := range handles(cat) {
		if h == lungo.Oplog {
			continue
		}
		c := cat.Namespaces[h]
		mc := &model.Coll{}
		for _, d := range c.Documents.List {
			mc.Docs = append(mc.Docs, toD(d))
		}
		for _, n := range indexNames(c) {
			mc.Indexes = append(mc.Indexes, modelIndex(n, c.Indexes[n].Config()))
		}
		st.Colls[model.NS{DB: h[0], Coll: h[1]}] = mc
	}
	return st
}

const ttlTol = 2 * time.Millisecond

// c19Commit judges every commit made by the expiry loop (or by a direct Transaction.Expire).
func c19Commit(e *Env, c *CommitRec) {
	isPass := (c.Task != nil && c.Task.Auto) || e.expirePass
	if !isPass || c.Prev == nil {
		return
	}
	e.probe("expiry-pass-committed")
	now := c.WallIn
	prev := stateFromCatalog(c.Prev)
	cur := stateFromCatalog(c.Cat)
	must, may := prev.Expired(now, ttlTol)
	for _, alt := range e.wallCandidates(c)[1:] {
		// the wall clock was stepped by the client at the very instant of this pass: the pass has read the clock
		// before or after the step. Only what is expired under every possible reading must go, what is expired
		// under any may go
		e.probe("expiry-pass-at-clock-step")
		m2, y2 := prev.Expired(alt, ttlTol)
		for ns := range prev.Colls {
			var both, either []bson.D
			for _, d := range prev.Colls[ns].Docs {
				k := string(model.Bytes(d))
				has := func(l []bson.D) bool {
					for _, x := range l {
						if string(model.Bytes(x)) == k {
							return true
						}
					}
					return false
				}
				switch {
				case has(must[ns]) && has(m2[ns]):
					both = append(both, d)
				case has(must[ns]) || has(may[ns]) || has(m2[ns]) || has(y2[ns]):
					either = append(either, d)
				}
			}
			must[ns], may[ns] = both, either
		}
	}
	removedTotal := 0
	type removal struct {
		ns  model.NS
		ids []any
	}
	var removals []removal
	for ns, pc := range prev.Colls {
		cc := cur.Colls[ns]
		if cc == nil {
			e.violate(violation("C19", "pass-changed-other-data", "", fmt.Sprintf("an expiry pass removed collection %s", ns)))
			return
		}
		key := func(d bson.D) string { return string(model.Bytes(d)) }
		remaining := map[string]bool{}
		for _, d := range cc.Docs {
			remaining[key(d)] = true
		}
		var removed []bson.D
		var kept []bson.D
		for _, d := range pc.Docs {
			if remaining[key(d)] {
				kept = append(kept, d)
			} else {
				removed = append(removed, d)
			}
		}
		if len(kept) != len(cc.Docs) {
			e.violate(violation("C19", "pass-changed-other-data", "", fmt.Sprintf("an expiry pass changed or added documents in %s", ns)))
			return
		}
		for i := range kept {
			if key(kept[i]) != key(cc.Docs[i]) {
				e.violate(violation("C19", "pass-changed-other-data", "order", fmt.Sprintf("an expiry pass reordered documents in %s", ns)))
				return
			}
		}
		in := func(list []bson.D, d bson.D) bool {
			for _, x := range list {
				if key(x) == key(d) {
					return true
				}
			}
			return false
		}
		var ids []any
		for _, d := range removed {
			if !in(must[ns], d) && !in(may[ns], d) {
				e.violate(violation("C19", "removed-unexpired", "", fmt.Sprintf("the expiry pass at %s removed %s from %s, which no TTL index of the collection makes expired", now.UTC().Format(time.RFC3339Nano), docStr(d), ns)))
				return
			}
			ids = append(ids, model.Get(d, "_id"))
		}
		for _, d := range must[ns] {
			if !in(removed, d) {
				e.violate(violation("C19", "expired-not-removed", "", fmt.Sprintf("the expiry pass at %s left %s in %s although it is expired", now.UTC().Format(time.RFC3339Nano), docStr(d), ns)))
				return
			}
		}
		removedTotal += len(removed)
		if len(ids) > 0 {
			removals = append(removals, removal{ns, ids})
		}
		// index definitions untouched
		if len(pc.Indexes) != len(cc.Indexes) {
			e.violate(violation("C19", "pass-changed-other-data", "indexes", fmt.Sprintf("an expiry pass changed the indexes of %s", ns)))
			return
		}
	}
	for ns := range cur.Colls {
		if prev.Colls[ns] == nil {
			e.violate(violation("C19", "pass-changed-other-data", "", fmt.Sprintf("an expiry pass created collection %s", ns)))
			return
		}
	}
	if removedTotal == 0 {
		e.violate(violation("C19", "empty-pass-committed", "", "an expiry pass that removed nothing still committed a change"))
		return
	}
	// one delete event per removal
	appended := len(oplogOf(c.Cat)) - len(oplogOf(c.Prev))
	pl, cl := oplogOf(c.Prev), oplogOf(c.Cat)
	if len(pl) > 0 && len(cl) > 0 && !model.Same(pl[0], cl[0]) {
		appended = -1 // retention trimmed in the same commit: the C08 monitor checks the replay
	}
	if appended >= 0 {
		if appended != removedTotal {
			e.violate(violation("C19", "removal-not-logged", "", fmt.Sprintf("the expiry pass removed %d documents but logged %d events", removedTotal, appended)))
			return
		}
		for _, ev := range cl[len(cl)-appended:] {
			if model.Get(ev, "operationType") != "delete" {
				e.violate(violation("C19", "removal-not-logged", "type", "an expiry pass logged an event that is not a delete"))
				return
			}
		}
	}
	e.probe("ttl-removed")
	for _, r := range removals {
		r := r
		e.deferModel(c.Seq, func(st *model.State) { st.Remove(r.ns, r.ids) })
	}
}

// c19After: a direct expiry pass that returned success must not leave behind what was expired when it
// started (a pass that removes nothing makes no commit, so c19Commit alone would never look at it).
func c19After(e *Env, st *model.State, op *Op, c *CallRec, before, after *lungo.Catalog) {
	if op.K != "e.expire" || c.Err != nil {
		return
	}
	ref := time.Now().Add(e.sim.WallOffset()).Add(-(c.RetAt - c.InvAt))
	// (the model's state: its TTL definitions are what the client created, whatever the catalog says)
	must, _ := st.Expired(ref, ttlTol)
	for ns, docs := range must {
		if len(docs) > 0 {
			e.violate(violation("C19", "expired-not-removed", "direct", fmt.Sprintf("Transaction.Expire at %s left %s in %s although a TTL index of the collection makes it expired", ref.UTC().Format(time.RFC3339Nano), docStr(docs[0]), ns)))
			return
		}
	}
}

// c19Final: give the loop two more intervals, then nothing that was clearly expired before may be left.
func c19Final(e *Env, st *model.State) {
	interval := time.Duration(e.plan.Cfg.ExpireMs) * time.Millisecond
	if interval > time.Minute {
		return
	}
	ref := time.Now().Add(e.sim.WallOffset())
	time.Sleep(2*interval + time.Millisecond)
	e.syncModel(st, -1)
	if d := compareState(st, e.engine.Catalog()); d != "" {
		// (a pass still in flight or a disagreement another check owns: judge what the database holds)
		st = stateFromCatalog(e.engine.Catalog())
	}
	must, _ := st.Expired(ref, ttlTol)
	for ns, docs := range must {
		if len(docs) > 0 {
			e.violate(violation("C19", "expired-not-removed", "loop", fmt.Sprintf("two expiry intervals later %s still holds %s, expired since before", ns, docStr(docs[0]))))
			return
		}
	}
	e.probe("final-expiry-checked")
}

func genC19(seed uint64, run int, tier string) *Plan {
	r := newRNG(seed, 19)
	g := newGen(r)
	g.colls = []string{"c0", "c1"}
	g.ids = 4 + r.IntN(3)
	p := &Plan{Prop: "C19", Seed: seed, Run: run, Cfg: seqCfg(r)}
	p.Cfg.ExpireMs = pick(r, int64(50), 500, 5000, 60000)
	interval := p.Cfg.ExpireMs
	ttlDoc := func() bson.D {
		d := g.doc(true)
		// replace / add the TTL field with the interesting shapes
		var v any
		switch r.IntN(10) {
		case 0, 1, 2, 3:
			v = primitive.NewDateTimeFromTime(g.base.Add(time.Duration(r.IntN(7300)-7200) * time.Second)) // past
		case 4:
			v = primitive.NewDateTimeFromTime(g.base.Add(time.Duration(r.IntN(int(interval)*6+1)) * time.Millisecond)) // about to expire
		case 5:
			v = primitive.NewDateTimeFromTime(g.base.Add(time.Duration(1+r.IntN(100000)) * time.Second)) // future
		case 6:
			v = bson.A{"x", primitive.NewDateTimeFromTime(g.base.Add(-time.Duration(r.IntN(7200)) * time.Second)), int32(3)}
		case 7:
			v = pick[any](r, int32(5), "2000-01-01", nil, true, int64(946684800000))
		case 8:
			v = bson.A{int32(1), "y"}
		default:
			v = model.Missing
		}
		var out bson.D
		for _, e := range d {
			if e.Key != "d" {
				out = append(out, e)
			}
		}
		if v != model.Missing {
			out = append(out, bson.E{Key: pick(r, "d", "d", "d", "d2"), Value: v})
		}
		return out
	}
	ttlIndex := func(c, field string) Op {
		ttl := int32(pick(r, 0, 0, 1, 60, 3600, 7000))
		return Op{K: "createIndex", DB: "db", C: c, D: jd(bson.D{{Key: field, Value: int32(1)}}), TTL: &ttl}
	}
	tp := TaskPlan{Name: "client"}
	// collections with 0-2 TTL indexes next to other indexes
	for _, c := range g.colls {
		switch r.IntN(4) {
		case 0:
		case 1, 2:
			tp.Ops = append(tp.Ops, ttlIndex(c, "d"))
		default:
			tp.Ops = append(tp.Ops, ttlIndex(c, "d"), ttlIndex(c, "d2"))
		}
		if r.IntN(2) == 0 {
			tp.Ops = append(tp.Ops, Op{K: "createIndex", DB: "db", C: c, D: jd(bson.D{{Key: "a", Value: int32(1)}}), Unique: r.IntN(3) == 0})
		}
	}
	n := deepen(tier, seed, 3+r.IntN(12))
	for i := 0; i < n; i++ {
		c := pick(r, g.colls...)
		switch k := r.IntN(20); {
		case k < 7:
			tp.Ops = append(tp.Ops, Op{K: "insertOne", DB: "db", C: c, D: jd(ttlDoc())})
		case k < 9:
			op := Op{K: "insertMany", DB: "db", C: c}
			for m := 2 + r.IntN(4); m > 0; m-- {
				op.Docs = append(op.Docs, jd(ttlDoc()))
			}
			tp.Ops = append(tp.Ops, op)
		case k < 11:
			tp.Ops = append(tp.Ops, Op{K: "updateOne", DB: "db", C: c, F: jd(bson.D{{Key: "_id", Value: g.id()}}), U: jd(bson.D{{Key: "$set", Value: bson.D{{Key: "d", Value: primitive.NewDateTimeFromTime(g.base.Add(time.Duration(r.IntN(14400)-7200) * time.Second))}}}})})
		case k < 12:
			tp.Ops = append(tp.Ops, Op{K: "updateOne", DB: "db", C: c, F: jd(bson.D{{Key: "_id", Value: g.id()}}), U: jd(bson.D{{Key: "$currentDate", Value: bson.D{{Key: "d", Value: true}}}})})
		case k < 13:
			tp.Ops = append(tp.Ops, Op{K: "find", DB: "db", C: c, F: jd(bson.D{})})
		case k < 14:
			tp.Ops = append(tp.Ops, ttlIndex(c, pick(r, "d", "d2")))
		case k < 15:
			tp.Ops = append(tp.Ops, Op{K: "dropIndex", DB: "db", C: c, Name: pick(r, "d_1", "d2_1")})
		case k < 16:
			tp.Ops = append(tp.Ops, Op{K: "e.expire"})
			if p.Cfg.Store == "file" && r.IntN(2) == 0 {
				// the TTL definitions must survive closing and reopening the file
				tp.Ops = append(tp.Ops, Op{K: "restart"})
			}
			if r.IntN(4) == 0 {
				// expiry is a single-field index option: on a compound index it must not make documents expire
				ttl := int32(pick(r, 0, 1, 60))
				tp.Ops = append(tp.Ops, Op{K: "createIndex", DB: "db", C: c, D: jd(bson.D{{Key: pick(r, "d", "d2"), Value: int32(1)}, {Key: "a", Value: int32(1)}}), TTL: &ttl})
			}
		case k < 17:
			tp.Ops = append(tp.Ops, Op{K: "clock", Ms: pick(r, int64(1500), 61000, 3700000, -1500, -3700000)})
		default:
			tp.Ops = append(tp.Ops, Op{K: "sleep", Ms: 1 + int64(r.IntN(int(interval)*3))})
		}
	}
	if r.IntN(6) == 0 {
		p.Faults = append(p.Faults, Fault{Kind: pick(r, "store-before", "store-latency"), At: 2 + r.IntN(10), Ms: int64(1 + r.IntN(int(interval)))})
	}
	p.Tasks = []TaskPlan{tp}
	return p
}

// expireNow runs Transaction.Expire on a locked transaction (second entry point).
func expireNow(e *Env) error {
	txn, err := e.engine.Begin(context.Background(), true)
	if err != nil {
		return err
	}
	if err := txn.Expire(); err != nil {
		e.engine.Abort(txn)
		return err
	}
	e.expirePass = true
	defer func() { e.expirePass = false }()
	return e.engine.Commit(txn)
}
