package harness

import (
	"fmt"
	"strings"
	"testing"
	"time"

	"github.com/256dpi/lungo"
	"github.com/256dpi/lungo/bsonkit"
	"github.com/256dpi/lungo/verifsim/simrt"

	"verif/harness/model"
)

// seqHooks customises the shared sequential executor (one client task plus the
// engine's own expiry goroutine).
type seqHooks struct {
	prop string
	// compare results and state with the reference model after every call
	model bool
	// called after every call (st is the model state after the call)
	after func(e *Env, st *model.State, op *Op, c *CallRec, before, after *lungo.Catalog)
	// called after every restart with the catalogs before close and after reopen
	restarted func(e *Env, st *model.State, before, after *lungo.Catalog)
	// called at the end of the run inside the client task
	final func(e *Env, st *model.State)
	// called for every commit (inside the committing task); may queue model updates with e.defer
	commit func(e *Env, c *CommitRec)
}

// deferred is a model update caused by a commit of another task (expiry pass):
// it is applied to the model in commit order when the client synchronises.
type deferred struct {
	seq int
	fn  func(st *model.State)
}

func (e *Env) deferModel(seq int, fn func(st *model.State)) {
	e.deferredOps = append(e.deferredOps, deferred{seq, fn})
}

// syncModel applies the deferred updates with seq < upTo (all if upTo < 0).
func (e *Env) syncModel(st *model.State, upTo int) {
	var rest []deferred
	for _, d := range e.deferredOps {
		if upTo < 0 || d.seq < upTo {
			d.fn(st)
		} else {
			rest = append(rest, d)
		}
	}
	e.deferredOps = rest
}

// monitors installs the cheap invariants that every run evaluates on every
// committed catalog: C07 (unique keys), C15 (index contents), C08 (change log).
func (e *Env) monitors() {
	e.onCommit = append(e.onCommit, func(c *CommitRec) {
		if v := checkUnique(c.Cat); v != nil {
			e.violate(v)
		}
		if v := checkIndexes(c.Cat); v != nil {
			e.violate(v)
		}
		if v := checkOplogStep(e, c); v != nil {
			e.violate(v)
		}
	})
}

func execSeq(t *testing.T, plan *Plan, h seqHooks) *Outcome {
	return runPlan(t, plan, func(e *Env) {
		e.monitors()
		sim := e.sim
		st := model.New()
		var client *actor
		e.onCommit = append(e.onCommit, func(c *CommitRec) {
			if client != nil && c.Task == client.t {
				client.pendingCommits = append(client.pendingCommits, c.Seq)
			}
			if h.commit != nil {
				h.commit(e, c)
			}
		})
		sim.Go("client", false, func(task *simrt.Task) {
			if err := e.open(); err != nil {
				e.out.Harness = "open failed: " + err.Error()
				return
			}
			a := &actor{e: e, t: task}
			client = a
			for i := range plan.Tasks[0].Ops {
				op := &plan.Tasks[0].Ops[i]
				if e.failed() {
					return
				}
				switch op.K {
				case "sleep", "clock":
					a.exec(op)
					e.syncModel(st, -1)
					continue
				case "restart":
					if e.out.Faults["store-after"] > 0 {
						// a commit was persisted but reported as failed: what a restart loads is
						// legitimately indeterminate (old or new), the model cannot follow; stop here
						e.probe("indeterminate-restart-skipped")
						return
					}
					before := e.engine.Catalog()
					e.engine.Close()
					e.freshProcess()
					if op.N == 1 {
						// the new process has already drawn timestamps in this second (another engine, a call of
						// bsonkit.Now) before it opens the file: ids must still continue after the persisted ones
						bsonkit.Now()
						e.probe("restart-warm-generator")
					}
					if err := e.open(); err != nil {
						e.violate(violation(h.prop, "reopen-failed", "", fmt.Sprintf("reopening the database failed: %v", err)))
						return
					}
					e.probe("restart")
					e.logf("[client] restart")
					if h.restarted != nil {
						h.restarted(e, st, before, e.engine.Catalog())
					}
					if h.model && !e.failed() {
						// the reopened database must still be the one the model describes
						e.syncModel(st, -1)
						if d := compareState(st, e.engine.Catalog()); d != "" {
							v := attributeRestart(h.prop, "after a clean restart: "+d)
							e.violate(v)
							if v.Prop == h.prop {
								return
							}
							*st = *modelFromCatalog(e.engine.Catalog())
						}
					}
					continue
				}
				before := e.engine.Catalog()
				commitsBefore := len(e.commits)
				now := time.Now().Add(e.sim.WallOffset())
				c := a.exec(op)
				after := e.engine.Catalog()
				if c == nil {
					continue
				}
				if c.Panic != nil {
					e.violate(violation("C20", "panic", "", fmt.Sprintf("%s panicked: %v", opStr(op), c.Panic)))
					return
				}
				if h.model && op.Wide && classifyErr(c.Err) != "store-fault" {
					// outside the reference model's operator domain: the model-free oracles judge the call (the
					// commit monitors have already seen it); a failing call must not leave a trace, and the
					// model continues from the implementation's state
					e.probe("wide-update")
					if c.Err != nil {
						e.probe("wide-update-failed")
						if b, a := catalogDump(before, true), catalogDump(after, true); a != b {
							e.violate(violation("C02", "failed-write-left-trace", op.K, fmt.Sprintf("%s returned %v but changed the database:\n--- before\n%s--- after\n%s", opStr(op), c.Err, b, a)))
							return
						}
					}
					e.syncModel(st, -1)
					*st = *modelFromCatalog(after)
					if h.after != nil {
						h.after(e, st, op, c, before, after)
					}
					continue
				}
				if h.model {
					if classifyErr(c.Err) == "store-fault" {
						// the call itself was fine but persisting failed: nothing may be visible (C02/C05);
						// the model does not apply it
						ref := before
						if n := len(e.commits); n > commitsBefore {
							// somebody else (an expiry pass) committed while the call was under way
							ref = e.commits[n-1].Cat
						}
						if catalogDump(ref, true) != catalogDump(after, true) {
							v := violation("C02", "visible-after-failed-store", op.K, fmt.Sprintf("%s failed in the store but changed the visible state", opStr(op)))
							// the same damage in the vocabulary of the property under test
							bl, al := oplogOf(ref), oplogOf(after)
							switch {
							case h.prop == "C08" && (len(al) != len(bl) || (len(al) > 0 && !model.Same(al[len(al)-1], bl[len(bl)-1]))):
								v = violation("C08", "event-for-failed-call", op.K, fmt.Sprintf("%s failed in the store but the change log differs afterwards (%d events before, %d after)", opStr(op), len(bl), len(al)))
							case h.prop == "C05":
								v = violation("C05", "visible-after-failed-persist", op.K, v.Detail)
							}
							e.violate(v)
							if v.Prop == h.prop {
								return
							}
							// another property's check decides this: continue from what the database now holds
							e.syncModel(st, -1)
							*st = *modelFromCatalog(after)
						}
						e.probe("store-fault-call")
						continue
					}
					// commits of other tasks (expiry passes) are applied to the model in commit order
					var want model.Res
					if op.K == "s.txn" || op.K == "s.with" {
						// a session transaction: the calls of its body run against a private copy, which replaces the
						// state if (and only if) the commit succeeded
						if len(c.Commits) > 0 {
							e.syncModel(st, c.Commits[0])
						}
						work := st.Clone()
						var mismatch *Violation
						for _, sub := range c.Subs {
							if isIndexOp(sub.Op.K) && sub.Op.K != "listIndexes" && (sub.Err != nil || sub.Res.Err != "") {
								// index management inside a session transaction: whether it is accepted is not
								// decided here (lungo refuses it as a nested transaction, MongoDB accepts some
								// cases). A refused call has no effect - the model skips it and the comparison of
								// the committed state decides; an accepted one must do what the model does
								e.probe("index-call-in-transaction-refused")
								continue
							}
							w := applyModel(work, sub.Op, &sub.Res, now, nil)
							if d := diffRes(sub.Op.K, w, sub.Res); d != "" && mismatch == nil {
								mismatch = attribute(h.prop, "result-mismatch", sub.Op, w, sub.Res, fmt.Sprintf("inside a transaction, %s: %s (impl error: %v)", opStr(sub.Op), d, sub.Err))
							}
						}
						if c.TxnOK {
							*st = *work
						}
						e.syncModel(st, -1)
						if mismatch == nil {
							if d := compareState(st, after); d != "" {
								mismatch = attribute(h.prop, "state-mismatch", op, model.Res{}, model.Res{}, fmt.Sprintf("after %s (committed=%v): %s", opStr(op), c.TxnOK, d))
							}
						}
						if mismatch != nil {
							e.violate(mismatch)
							if mismatch.Prop == h.prop {
								return
							}
							*st = *modelFromCatalog(after)
						}
						if h.after != nil {
							h.after(e, st, op, c, before, after)
						}
						continue
					}
					if len(c.Commits) > 0 {
						e.syncModel(st, c.Commits[0])
						want = applyModel(st, op, &c.Res, now, lastIDOf(after, op))
					} else {
						// no commit of its own: the call saw the state before or after any pass that ran meanwhile
						for {
							tmp := st.Clone()
							want = applyModel(tmp, op, &c.Res, now, lastIDOf(after, op))
							if diffRes(op.K, want, c.Res) == "" || len(e.deferredOps) == 0 {
								break
							}
							e.syncModel(st, e.deferredOps[0].seq+1)
						}
						want = applyModel(st, op, &c.Res, now, lastIDOf(after, op))
					}
					e.syncModel(st, -1)
					var mismatch *Violation
					if d := diffRes(op.K, want, c.Res); d != "" {
						mismatch = attribute(h.prop, "result-mismatch", op, want, c.Res, fmt.Sprintf("%s: %s (impl error: %v)", opStr(op), d, c.Err))
					} else if d := compareState(st, after); d != "" {
						mismatch = attribute(h.prop, "state-mismatch", op, want, c.Res, fmt.Sprintf("after %s: %s", opStr(op), d))
					}
					if mismatch != nil {
						e.violate(mismatch)
						if mismatch.Prop == h.prop {
							return
						}
						// a disagreement that another property's check decides: note it, let the model continue
						// from the implementation's state and keep looking for violations of this property
						*st = *modelFromCatalog(after)
					}
				}
				if h.after != nil {
					h.after(e, st, op, c, before, after)
				}
			}
			if h.final != nil && !e.failed() {
				h.final(e, st)
			}
		})
		sim.Run()
		e.out.Nontrivial = len(e.commits) > 0
		if e.out.Harness != "" {
			return
		}
		if sim.PanicVal != nil {
			e.violate(violation("C20", "panic", "", fmt.Sprintf("client panicked: %v\n%s", sim.PanicVal, sim.PanicStack)))
		} else if sim.Deadlock != "" || sim.TimeOut || sim.StepsOut {
			e.violate(violation("C16", "deadlock", "stall", fmt.Sprintf("sequential run did not finish: %s %s", sim.Deadlock, e.stallReport())))
		}
		if len(e.commits) > 0 {
			e.out.StateHash = stateFingerprint(e.commits[len(e.commits)-1].Cat)
		}
	})
}

// lastIDOf returns the _id of the newest document of the operation's namespace.
func lastIDOf(cat *lungo.Catalog, op *Op) any {
	c := cat.Namespaces[lungo.Handle{op.DB, op.C}]
	if c == nil || len(c.Documents.List) == 0 {
		return nil
	}
	d := toD(c.Documents.List[len(c.Documents.List)-1])
	return model.Get(d, "_id")
}

func isIndexOp(k string) bool {
	switch k {
	case "createIndex", "dropIndex", "dropIndexKey", "dropAllIndexes", "listIndexes":
		return true
	}
	return false
}

// attributeRestart: a database that differs after closing and reopening is
// C06's; differences in index definitions also belong to the index (C15) and
// TTL (C19) properties when their checks see them.
func attributeRestart(prop, detail string) *Violation {
	if prop == "C15" && strings.Contains(detail, "exists in the model but not in the database") {
		// a collection that vanished took its index definitions with it
		return violation("C15", "indexes-differ-after-reload", "collection-lost", detail)
	}
	if strings.Contains(detail, "index") {
		switch prop {
		case "C15":
			return violation("C15", "indexes-differ-after-reload", "", detail)
		case "C19":
			return violation("C19", "ttl-index-definition", "after-reload", detail)
		case "C07":
			return violation("C07", "unique-index-lost-after-reload", "", detail)
		}
	}
	return violation("C06", "reload-differs", "model", detail)
}

// attribute decides which property a model mismatch belongs to. C01 owns all
// of them; C07 owns disagreements about uniqueness errors; C15 owns index
// management; C02 owns disagreements on failing calls. A check only turns its
// own violations into a verdict, the rest is reported as foreign (DESIGN 7).
func attribute(prop, class string, op *Op, want, got model.Res, detail string) *Violation {
	owner := "C01"
	switch prop {
	case "C07":
		if want.Err != got.Err && (want.Err == model.ErrDup || got.Err == model.ErrDup) {
			return violation("C07", "uniqueness-exactness", op.K, detail)
		}
		if op.K == "bulk" && fmt.Sprint(want.ErrDups) != fmt.Sprint(got.ErrDups) {
			return violation("C07", "uniqueness-exactness", op.K, detail)
		}
	case "C15":
		if isIndexOp(op.K) {
			return violation("C15", "index-management", op.K, detail)
		}
	case "C19":
		if op.K == "createIndex" && op.TTL != nil {
			return violation("C19", "ttl-index-definition", "", detail)
		}
	case "C02":
		if want.Err != "" || got.Err != "" || op.K == "s.txn" || op.K == "s.with" {
			// (a transaction body in C02's workload is there for its failing calls)
			return violation("C02", "failed-write-"+class, op.K, detail)
		}
	}
	return violation(owner, class, op.K, detail)
}
