package harness

import (
	"context"
	"fmt"
	"testing"

	"github.com/256dpi/lungo"
	"github.com/256dpi/lungo/verifsim/simos"
	"github.com/256dpi/lungo/verifsim/simrt"
	"go.mongodb.org/mongo-driver/bson"
)

// C05 - committed data survives crashes: the store file is always old or new, never torn.

func init() {
	register(&Property{ID: "C05", Gen: genC05, Exec: execC05, Sweep: sweepC05})
}

var diskErrnos = map[string][]string{
	"remove":   {"EPERM", "EIO"},
	"open":     {"EACCES", "ENOSPC", "EIO", "ENOENT"}, // ENOENT: the directory has gone
	"write":    {"ENOSPC", "EIO"},
	"fsync":    {"EIO"},
	"close":    {"EIO"},
	"rename":   {"EIO", "EACCES", "ENOENT"}, // ENOENT: the temporary file was removed under the writer
	"fsyncdir": {"EIO"},
	"readfile": {"EIO"},
}

var powerModes = []string{"none", "all", "prefix", "subset", "zerofill"}

func c05History(r interface{ IntN(int) int }, g *gen) []Op {
	var ops []Op
	n := 1 + r.IntN(6)
	for i := 0; i < n; i++ {
		switch r.IntN(10) {
		case 0, 1, 2, 3:
			ops = append(ops, Op{K: "insertOne", DB: "db", C: "c0", D: jd(g.doc(false))})
		case 4, 5:
			ops = append(ops, Op{K: "updateMany", DB: "db", C: "c0", F: jd(bson.D{}), U: jd(bson.D{{Key: "$inc", Value: bson.D{{Key: "n", Value: int32(1)}}}})})
		case 6:
			ops = append(ops, Op{K: "deleteOne", DB: "db", C: "c0", F: jd(bson.D{})})
		case 7:
			ops = append(ops, Op{K: "createIndex", DB: "db", C: "c0", D: jd(bson.D{{Key: pick(r, "a", "s", "n"), Value: int32(1)}})})
		case 8:
			op := Op{K: "insertMany", DB: "db", C: pick(r, "c0", "c1")}
			for k := 2 + r.IntN(20); k > 0; k-- {
				op.Docs = append(op.Docs, jd(g.doc(false)))
			}
			ops = append(ops, op)
		default:
			ops = append(ops, Op{K: "dropColl", DB: "db", C: pick(r, "c0", "c1")})
		}
	}
	return ops
}

func genC05(seed uint64, run int, tier string) *Plan {
	r := newRNG(seed, 5)
	g := newGen(r)
	p := &Plan{Prop: "C05", Seed: seed, Run: run}
	p.Cfg = Cfg{Store: "file", Strategy: "rr", ExpireMs: 3600000, BlockSize: pick(r, 512, 1024, 4096, 65536), StallS: 100000}
	tp := TaskPlan{Name: "client"}
	for _, op := range c05History(r, g) {
		tp.Ops = append(tp.Ops, op)
		switch r.IntN(12) {
		case 0:
			tp.Ops = append(tp.Ops, Op{K: "restart"})
		case 1:
			// power loss (or process kill) while idle
			tp.Ops = append(tp.Ops, Op{K: "crash", N: r.IntN(2), Tag: pick(r, powerModes...), Ms: int64(r.IntN(8))})
		}
	}
	if r.IntN(5) == 0 {
		// retention with second-scale ages, an idle period, then calls that change nothing and calls that change
		// something while the disk is full, then room again: what clients see stays what the file holds
		p.Cfg.MinOplog = 1 + r.IntN(2)
		p.Cfg.MaxOplog = p.Cfg.MinOplog + r.IntN(3)
		p.Cfg.MinAgeS, p.Cfg.MaxAgeS = 1, pick(r, int64(1), 2)
		noop := Op{K: "deleteMany", DB: "db", C: "c0", F: jd(bson.D{{Key: "_id", Value: "nobody"}})}
		tp.Ops = append(tp.Ops, Op{K: "sleep", Ms: int64(1100 + r.IntN(3000))})
		if r.IntN(3) != 0 {
			tp.Ops = append(tp.Ops, Op{K: "diskfull", N: 1})
		}
		tp.Ops = append(tp.Ops, noop)
		if r.IntN(2) == 0 {
			tp.Ops = append(tp.Ops, Op{K: "insertOne", DB: "db", C: "c0", D: jd(g.doc(false))}, noop)
		}
		tp.Ops = append(tp.Ops, Op{K: "diskfull"}, Op{K: "insertOne", DB: "db", C: "c0", D: jd(g.doc(false))})
	}
	p.Tasks = []TaskPlan{tp}
	// faults: sampled from the space the thorough sweep enumerates
	nf := pick(r, 0, 1, 1, 1, 2)
	for i := 0; i < nf; i++ {
		at := r.IntN(10 * len(tp.Ops))
		switch r.IntN(3) {
		case 0:
			p.Faults = append(p.Faults, Fault{Kind: "disk-err", At: at, Errno: pick(r, "EIO", "ENOSPC", "EACCES", "EPERM", "ENOENT"), N: r.IntN(4000)})
		default:
			f := Fault{Kind: pick(r, "disk-kill-before", "disk-kill-after"), At: at, N: r.IntN(5000)}
			if r.IntN(3) != 0 {
				f.Power = &Power{DirMask: uint64(r.IntN(16)), DataMode: pick(r, powerModes...), DataSeed: uint64(r.IntN(1 << 30))}
			}
			p.Faults = append(p.Faults, f)
		}
	}
	return p
}

// sweepC05 enumerates, for one history, every commit x every fault point x
// {kill before, kill after} x power-loss outcomes, and every applicable error.
func sweepC05(t *testing.T, base *Plan) []*Plan {
	base = base.Clone()
	base.Faults = nil
	// keep the history but drop crash pseudo operations: the sweep places the crashes
	var ops []Op
	for _, op := range base.Tasks[0].Ops {
		if op.K != "crash" {
			ops = append(ops, op)
		}
	}
	base.Tasks[0].Ops = ops
	var dry *Env
	out := execC05With(t, base.Clone(), func(e *Env) { dry = e })
	if out.Harness != "" || out.Violation != nil || dry == nil || dry.disk == nil {
		return []*Plan{base}
	}
	var plans []*Plan
	add := func(f Fault) {
		p := base.Clone()
		p.Faults = []Fault{f}
		plans = append(plans, p)
	}
	for _, op := range dry.disk.Log {
		if op.Kind == "readfile" {
			continue
		}
		for _, kind := range []string{"disk-kill-before", "disk-kill-after"} {
			add(Fault{Kind: kind, At: op.N})
			if op.Kind == "write" && kind == "disk-kill-after" {
				add(Fault{Kind: kind, At: op.N, N: 1})
				add(Fault{Kind: kind, At: op.N, N: op.Size / 2})
			}
			for mask := uint64(0); mask < 8; mask++ {
				for _, mode := range powerModes {
					f := Fault{Kind: kind, At: op.N, Power: &Power{DirMask: mask, DataMode: mode, DataSeed: uint64(op.N)*977 + mask}}
					add(f)
					if op.Kind == "write" && kind == "disk-kill-after" {
						f.N = op.Size / 2
						add(f)
					}
				}
			}
		}
		for _, errno := range diskErrnos[op.Kind] {
			f := Fault{Kind: "disk-err", At: op.N, Errno: errno}
			if op.Kind == "write" {
				f.N = op.Size / 3
			}
			add(f)
		}
	}
	return plans
}

func execC05(t *testing.T, plan *Plan) *Outcome { return execC05With(t, plan, nil) }

func execC05With(t *testing.T, plan *Plan, inspect func(e *Env)) *Outcome {
	return runPlan(t, plan, func(e *Env) {
		e.monitors()
		sim := e.sim
		sim.Go("client", false, func(task *simrt.Task) { c05Client(e, task) })
		sim.Run()
		e.out.Nontrivial = len(e.out.Faults) > 0 || e.out.Probes["restart"] > 0
		if inspect != nil {
			inspect(e)
		}
		if e.out.Harness != "" {
			return
		}
		if sim.PanicVal != nil {
			e.violate(violation("C05", "panic", "", fmt.Sprintf("client panicked: %v\n%s", sim.PanicVal, sim.PanicStack)))
		} else if sim.Deadlock != "" || sim.TimeOut || sim.StepsOut {
			e.violate(violation("C16", "deadlock", "stall", fmt.Sprintf("crash run did not finish: %s %s", sim.Deadlock, e.stallReport())))
		}
		e.out.StateHash = hash64(len(e.commits), fmt.Sprint(e.out.Faults))
	})
}

// c05Client runs the history; durable is the set of catalog dumps the file may legitimately hold.
func c05Client(e *Env, task *simrt.Task) {
	if err := e.open(); err != nil {
		e.out.Harness = "open failed: " + err.Error()
		return
	}
	a := &actor{e: e, t: task}
	acked := catalogDump(e.engine.Catalog(), true) // visible state all clients agree on
	durable := map[string]bool{acked: true}
	failedBefore := false

	reopen := func(what string, exact bool, settled bool) bool {
		e.freshProcess()
		if err := e.open(); err != nil {
			e.violate(violation("C05", "load-failed", what, fmt.Sprintf("after %s the store file does not load: %v", what, err)))
			return false
		}
		got := catalogDump(e.engine.Catalog(), true)
		if !durable[got] {
			class := "torn-or-lost"
			if exact {
				class = "acknowledged-commit-lost"
			}
			e.violate(violation("C05", class, what, fmt.Sprintf("after %s the file loads as a state that is neither the last committed one nor the one being committed (%d acceptable states)\n--- loaded\n%s", what, len(durable), clip(got))))
			return false
		}
		acked = got
		if settled {
			// a power loss (or nothing pending): what was loaded is what the disk durably holds
			durable = map[string]bool{got: true}
			failedBefore = false
		}
		// after a mere process kill the page cache survived: un-synced directory updates are still
		// pending and a later power loss may fall back to any of the earlier candidates
		return true
	}

	crash := func(what string, power *Power) bool {
		// the process is gone: nothing of the old engine runs any more (its disk calls are ignored)
		old := e.engine
		if power != nil {
			e.disk.Reboot(&simos.PowerChoice{DirMask: power.DirMask, DataMode: power.DataMode, DataSeed: power.DataSeed})
			e.fault("power-loss:" + power.DataMode)
		} else {
			e.disk.Reboot(nil)
			e.fault("process-kill")
		}
		old.Close()
		return reopen(what, false, power != nil)
	}

	for i := range e.plan.Tasks[0].Ops {
		op := &e.plan.Tasks[0].Ops[i]
		if e.failed() {
			return
		}
		switch op.K {
		case "restart":
			e.engine.Close()
			e.probe("restart")
			if !reopen("a clean restart", !failedBefore, false) {
				return
			}
			continue
		case "diskfull":
			e.diskFull = op.N == 1
			e.logf("[client] disk full = %v", e.diskFull)
			continue
		case "crash":
			// crash while idle: everything acknowledged must survive
			var pw *Power
			if op.N == 1 {
				pw = &Power{DirMask: uint64(op.Ms), DataMode: op.Tag, DataSeed: uint64(i) + 1}
			}
			e.logf("[client] crash while idle power=%v", pw != nil)
			e.disk.Reboot(nil) // ends the epoch; a power loss is applied below
			if pw != nil {
				e.disk.Reboot(&simos.PowerChoice{DirMask: pw.DirMask, DataMode: pw.DataMode, DataSeed: pw.DataSeed})
				e.fault("power-loss-idle:" + pw.DataMode)
			} else {
				e.fault("process-kill-idle")
			}
			e.engine.Close()
			if !reopen("a crash while idle", !failedBefore, pw != nil) {
				return
			}
			continue
		}
		// a write: it may be hit by a disk fault
		e.attempt = nil
		logStart := len(e.disk.Log)
		var c *CallRec
		crashed := func() (crashed bool) {
			defer func() {
				if r := recover(); r != nil {
					if _, ok := r.(simosCrash); ok {
						crashed = true
						return
					}
					panic(r)
				}
			}()
			c = a.exec(op)
			return false
		}()
		attempt := ""
		if e.attempt != nil {
			attempt = catalogDump(e.attempt, true)
		}
		if crashed {
			e.logf("[client] %s -> process killed inside the commit", opStr(op))
			if attempt != "" {
				durable[attempt] = true
			}
			var pw *Power
			for _, f := range e.plan.Faults {
				if f.Power != nil && e.diskFaultHit[f.At] {
					pw = f.Power
				}
			}
			if !crash("a crash during a commit", pw) {
				return
			}
			continue
		}
		if c == nil {
			continue
		}
		visible := catalogDump(e.engine.Catalog(), true)
		if c.Err != nil && len(e.disk.Log) > logStart && hasFault(e.disk.Log[logStart:]) {
			// persisting failed: the error is reported, the visible state stays at the last persisted one
			e.probe("commit-failed-by-disk-error")
			if visible != acked {
				e.violate(violation("C05", "visible-after-failed-persist", "", fmt.Sprintf("%s failed with %v but the state visible to clients changed", opStr(op), c.Err)))
				return
			}
			// what the file holds is indeterminate only if the rename had already happened
			if attempt != "" && renamed(e.disk.Log[logStart:]) {
				durable[attempt] = true
				e.probe("indeterminate-after-rename")
			}
			failedBefore = true
			continue
		}
		if c.Err != nil && attempt == "" {
			switch cls := classifyErr(c.Err); cls {
			case "token acquisition timeout", "closed", "ctx-cancelled", "ctx-deadline":
				// the call never got to its commit: the writer slot is gone (later commits must work)
				e.violate(violation("C05", "later-commit-blocked", classKey(c.Err), fmt.Sprintf("%s failed with %v (persist failed earlier in the run: %v): the engine no longer accepts writes", opStr(op), c.Err, failedBefore)))
				return
			}
			// an ordinary failing call (no commit attempted)
			if visible != acked {
				e.violate(violation("C02", "failed-write-left-trace", op.K, fmt.Sprintf("%s failed with %v but changed the visible state", opStr(op), c.Err)))
				return
			}
			continue
		}
		if c.Err != nil {
			e.violate(violation("C05", "commit-failed-without-fault", classKey(c.Err), fmt.Sprintf("%s failed with %v although no fault was injected (a later commit must work after a failed one)", opStr(op), c.Err)))
			return
		}
		// acknowledged
		if attempt == "" && visible != acked {
			// (the expiry interval of these runs is an hour: nobody else commits)
			e.violate(violation("C05", "visible-differs-from-stored", "nothing-stored", fmt.Sprintf("%s stored nothing but the state visible to clients changed", opStr(op))))
			return
		}
		if attempt != "" {
			if visible != attempt {
				e.violate(violation("C05", "visible-differs-from-stored", "", "the state visible after a successful commit is not the one that was stored"))
				return
			}
			acked = visible
			durable = map[string]bool{visible: true}
			failedBefore = false
		}
	}
	// final: a power loss after the last acknowledged commit must not lose it either
	if !e.failed() {
		e.disk.Reboot(nil)
		e.disk.Reboot(&simos.PowerChoice{DirMask: 0, DataMode: "none"})
		e.engine.Close()
		reopen("a power loss after the last commit", !failedBefore, true)
		_ = context.Background
	}
}

func hasFault(log []simos.Op) bool {
	for _, op := range log {
		if op.Fault != "" {
			return true
		}
	}
	return false
}

func renamed(log []simos.Op) bool {
	for _, op := range log {
		if op.Kind == "rename" && op.Fault == "" {
			return true
		}
	}
	return false
}

var _ = lungo.Oplog
