package harness

import (
	"context"
	"errors"
	"fmt"
	"strings"
	"time"

	"github.com/256dpi/lungo"
	"go.mongodb.org/mongo-driver/bson"
	"go.mongodb.org/mongo-driver/mongo"
	"go.mongodb.org/mongo-driver/mongo/options"

	"verif/harness/model"
)

// errClass maps an implementation error to the model's error classes.
func errClass(err error) string {
	if err == nil {
		return model.ErrNone
	}
	if lungo.IsUniquenessError(err) {
		return model.ErrDup
	}
	return model.ErrOther
}

func ns(op *Op) model.NS { return model.NS{DB: op.DB, Coll: op.C} }

func docsOf(js []*J) []bson.D {
	out := make([]bson.D, len(js))
	for i, j := range js {
		out[i] = j.doc()
	}
	return out
}

func cursorDocs(ctx context.Context, csr lungo.ICursor) ([]bson.D, error) {
	var out []bson.D
	if err := csr.All(ctx, &out); err != nil {
		return nil, err
	}
	return detach(out), nil
}

// detach returns deep copies of decoded documents and then edits the decoded values in place, nested documents
// and arrays included - as a caller is free to do with what it was handed. If a decoded value shares anything
// with the database, the snapshot and model comparisons that follow every call see the damage.
func detach(docs []bson.D) []bson.D {
	out := make([]bson.D, len(docs))
	for i, d := range docs {
		out[i] = model.CloneD(d)
		scribble(d)
	}
	return out
}

// own hands a document to the database the way a Go caller may - by value or through a pointer - and returns
// what the caller does once the call has returned: it goes on using its document. What the database stored must
// be a copy.
func own(d bson.D) (any, func()) {
	if len(d)%2 == 1 {
		return &d, func() { scribble(d) }
	}
	return d, func() { scribble(d) }
}

func scribble(v any) {
	switch x := v.(type) {
	case bson.D:
		for i := range x {
			scribble(x[i].Value)
			if x[i].Key != "_id" {
				x[i].Value = "scribbled-by-caller"
			}
		}
	case bson.A:
		for i := range x {
			scribble(x[i])
			x[i] = "scribbled-by-caller"
		}
	}
}

func singleRes(sr lungo.ISingleResult) (model.Res, error) {
	var d bson.D
	err := sr.Decode(&d)
	if errors.Is(err, lungo.ErrNoDocuments) {
		return model.Res{NoDoc: true}, nil
	}
	if err != nil {
		return model.Res{Err: errClass(err)}, err
	}
	return model.Res{Docs: detach([]bson.D{d})}, nil
}

// nonNil turns a nil document into an empty one (the driver API panics on nil filters).
func nonNil(d bson.D) bson.D {
	if d == nil {
		return bson.D{}
	}
	return d
}

// drive executes one driver-level operation against the engine and returns the
// normalised result plus the raw error.
func drive(ctx context.Context, client lungo.IClient, op *Op) (res model.Res, err error) {
	coll := client.Database(op.DB).Collection(op.C)
	switch op.K {
	case "insertOne":
		arg, reuse := own(model.CloneD(op.D.doc()))
		r, err := coll.InsertOne(ctx, arg)
		reuse()
		if err != nil {
			return model.Res{Err: errClass(err)}, err
		}
		return model.Res{Inserted: 1, IDs: []any{r.InsertedID}}, nil
	case "insertMany":
		var docs []any
		var reuse []func()
		for _, d := range op.Docs {
			arg, fn := own(model.CloneD(d.doc()))
			docs = append(docs, arg)
			reuse = append(reuse, fn)
		}
		r, err := coll.InsertMany(ctx, docs, options.InsertMany().SetOrdered(op.Ordered))
		for _, fn := range reuse {
			fn()
		}
		out := model.Res{Err: errClass(err)}
		if r != nil {
			out.IDs = r.InsertedIDs
			out.Inserted = int64(len(r.InsertedIDs))
		}
		return out, err
	case "find":
		o := options.Find()
		if op.S != nil {
			o.SetSort(op.S.doc())
		}
		if op.P != nil {
			o.SetProjection(op.P.doc())
		}
		if op.Skip > 0 {
			o.SetSkip(int64(op.Skip))
		}
		if op.Limit > 0 {
			o.SetLimit(int64(op.Limit))
		}
		csr, err := coll.Find(ctx, nonNil(op.F.doc()), o)
		if err != nil {
			return model.Res{Err: errClass(err)}, err
		}
		docs, err := cursorDocs(ctx, csr)
		if err != nil {
			return model.Res{Err: errClass(err)}, err
		}
		return model.Res{Docs: docs}, nil
	case "findOne":
		o := options.FindOne()
		if op.S != nil {
			o.SetSort(op.S.doc())
		}
		if op.P != nil {
			o.SetProjection(op.P.doc())
		}
		if op.Skip > 0 {
			o.SetSkip(int64(op.Skip))
		}
		return singleRes(coll.FindOne(ctx, nonNil(op.F.doc()), o))
	case "count":
		o := options.Count()
		if op.Skip > 0 {
			o.SetSkip(int64(op.Skip))
		}
		if op.Limit > 0 {
			o.SetLimit(int64(op.Limit))
		}
		n, err := coll.CountDocuments(ctx, nonNil(op.F.doc()), o)
		if err != nil {
			return model.Res{Err: errClass(err)}, err
		}
		return model.Res{Count: n}, nil
	case "estCount":
		n, err := coll.EstimatedDocumentCount(ctx)
		if err != nil {
			return model.Res{Err: errClass(err)}, err
		}
		return model.Res{Count: n}, nil
	case "distinct":
		vals, err := coll.Distinct(ctx, op.Field, nonNil(op.F.doc()))
		if err != nil {
			return model.Res{Err: errClass(err)}, err
		}
		return model.Res{Vals: vals}, nil
	case "updateOne", "updateMany":
		o := options.Update().SetUpsert(op.Upsert)
		if len(op.AF) > 0 {
			o.SetArrayFilters(arrayFilters(op.AF))
		}
		var r *mongo.UpdateResult
		var err error
		if op.K == "updateOne" {
			r, err = coll.UpdateOne(ctx, nonNil(op.F.doc()), op.U.doc(), o)
		} else {
			r, err = coll.UpdateMany(ctx, nonNil(op.F.doc()), op.U.doc(), o)
		}
		if err != nil {
			return model.Res{Err: errClass(err)}, err
		}
		return updRes(r), nil
	case "replaceOne":
		arg, reuse := own(model.CloneD(op.D.doc()))
		r, err := coll.ReplaceOne(ctx, nonNil(op.F.doc()), arg, options.Replace().SetUpsert(op.Upsert))
		reuse()
		if err != nil {
			return model.Res{Err: errClass(err)}, err
		}
		return updRes(r), nil
	case "deleteOne", "deleteMany":
		var r *mongo.DeleteResult
		var err error
		if op.K == "deleteOne" {
			r, err = coll.DeleteOne(ctx, nonNil(op.F.doc()))
		} else {
			r, err = coll.DeleteMany(ctx, nonNil(op.F.doc()))
		}
		if err != nil {
			return model.Res{Err: errClass(err)}, err
		}
		return model.Res{Deleted: r.DeletedCount}, nil
	case "findOneAndUpdate":
		o := options.FindOneAndUpdate().SetUpsert(op.Upsert)
		if len(op.AF) > 0 {
			o.SetArrayFilters(arrayFilters(op.AF))
		}
		if op.After {
			o.SetReturnDocument(options.After)
		}
		if op.S != nil {
			o.SetSort(op.S.doc())
		}
		if op.P != nil {
			o.SetProjection(op.P.doc())
		}
		return singleRes(coll.FindOneAndUpdate(ctx, nonNil(op.F.doc()), op.U.doc(), o))
	case "findOneAndReplace":
		o := options.FindOneAndReplace().SetUpsert(op.Upsert)
		if op.After {
			o.SetReturnDocument(options.After)
		}
		if op.S != nil {
			o.SetSort(op.S.doc())
		}
		if op.P != nil {
			o.SetProjection(op.P.doc())
		}
		return singleRes(coll.FindOneAndReplace(ctx, nonNil(op.F.doc()), op.D.doc(), o))
	case "findOneAndDelete":
		o := options.FindOneAndDelete()
		if op.S != nil {
			o.SetSort(op.S.doc())
		}
		if op.P != nil {
			o.SetProjection(op.P.doc())
		}
		return singleRes(coll.FindOneAndDelete(ctx, nonNil(op.F.doc()), o))
	case "bulk":
		var models []mongo.WriteModel
		for i := range op.Items {
			it := &op.Items[i]
			switch it.K {
			case "insert":
				models = append(models, mongo.NewInsertOneModel().SetDocument(it.D.doc()))
			case "updateOne":
				models = append(models, mongo.NewUpdateOneModel().SetFilter(nonNil(it.F.doc())).SetUpdate(it.U.doc()).SetUpsert(it.Upsert))
			case "updateMany":
				models = append(models, mongo.NewUpdateManyModel().SetFilter(nonNil(it.F.doc())).SetUpdate(it.U.doc()).SetUpsert(it.Upsert))
			case "replace":
				models = append(models, mongo.NewReplaceOneModel().SetFilter(nonNil(it.F.doc())).SetReplacement(it.D.doc()).SetUpsert(it.Upsert))
			case "deleteOne":
				models = append(models, mongo.NewDeleteOneModel().SetFilter(nonNil(it.F.doc())))
			case "deleteMany":
				models = append(models, mongo.NewDeleteManyModel().SetFilter(nonNil(it.F.doc())))
			}
		}
		r, err := coll.BulkWrite(ctx, models, options.BulkWrite().SetOrdered(op.Ordered))
		out := model.Res{UpsertedIDs: map[int64]any{}}
		if r != nil {
			out.Inserted, out.Matched, out.Modified, out.Deleted, out.Upserted = r.InsertedCount, r.MatchedCount, r.ModifiedCount, r.DeletedCount, r.UpsertedCount
			for k, v := range r.UpsertedIDs {
				out.UpsertedIDs[k] = v
			}
		}
		var wes mongo.WriteErrors
		if errors.As(err, &wes) {
			for _, we := range wes {
				out.ErrIdx = append(out.ErrIdx, we.Index)
				out.ErrDups = append(out.ErrDups, lungo.IsUniquenessError(errors.New(we.Message)))
			}
			if len(wes) > 0 {
				out.Err = model.ErrOther
				if out.ErrDups[0] {
					out.Err = model.ErrDup
				}
			}
		} else if err != nil {
			out.Err = errClass(err)
		}
		return out, err
	case "createIndex":
		io := options.Index()
		if op.Name != "" {
			io.SetName(op.Name)
		}
		if op.Unique {
			io.SetUnique(true)
		}
		if op.P != nil {
			io.SetPartialFilterExpression(op.P.doc())
		}
		if op.TTL != nil {
			io.SetExpireAfterSeconds(*op.TTL)
		}
		name, err := coll.Indexes().CreateOne(ctx, mongo.IndexModel{Keys: op.D.doc(), Options: io})
		if err != nil {
			return model.Res{Err: errClass(err)}, err
		}
		return model.Res{Names: []string{name}}, nil
	case "dropIndex":
		_, err := coll.Indexes().DropOne(ctx, op.Name)
		return model.Res{Err: errClass(err)}, err
	case "dropIndexKey":
		_, err := coll.Indexes().DropOneWithKey(ctx, op.D.doc())
		return model.Res{Err: errClass(err)}, err
	case "dropAllIndexes":
		_, err := coll.Indexes().DropAll(ctx)
		return model.Res{Err: errClass(err)}, err
	case "listIndexes":
		csr, err := coll.Indexes().List(ctx)
		if err != nil {
			return model.Res{Err: errClass(err)}, err
		}
		docs, err := cursorDocs(ctx, csr)
		if err != nil {
			return model.Res{Err: errClass(err)}, err
		}
		return model.Res{Docs: docs}, nil
	case "createColl":
		err := client.Database(op.DB).CreateCollection(ctx, op.C)
		return model.Res{Err: errClass(err)}, err
	case "dropColl":
		err := coll.Drop(ctx)
		return model.Res{Err: errClass(err)}, err
	case "dropDB":
		err := client.Database(op.DB).Drop(ctx)
		return model.Res{Err: errClass(err)}, err
	case "listColls":
		names, err := client.Database(op.DB).ListCollectionNames(ctx, bson.D{})
		if err != nil {
			return model.Res{Err: errClass(err)}, err
		}
		return model.Res{Names: names}, nil
	case "listDBs":
		names, err := client.ListDatabaseNames(ctx, bson.D{})
		if err != nil {
			return model.Res{Err: errClass(err)}, err
		}
		return model.Res{Names: names}, nil
	}
	panic("harness: unknown driver op " + op.K)
}

func arrayFilters(js []*J) options.ArrayFilters {
	var fs []interface{}
	for _, j := range js {
		fs = append(fs, j.doc())
	}
	return options.ArrayFilters{Filters: fs}
}

func updRes(r *mongo.UpdateResult) model.Res {
	out := model.Res{Matched: r.MatchedCount, Modified: r.ModifiedCount, Upserted: r.UpsertedCount}
	if r.UpsertedID != nil {
		out.IDs = []any{r.UpsertedID}
	}
	return out
}

// isWrite reports whether the op kind can modify the database.
func isWrite(k string) bool {
	switch k {
	case "find", "findLater", "findOne", "count", "estCount", "distinct", "listIndexes", "listColls", "listDBs", "sleep":
		return false
	}
	return true
}

// applyModel executes the same operation on the reference model. impl is the
// implementation's result (source of generated ids).
func applyModel(st *model.State, op *Op, impl *model.Res, now time.Time, lastID any) model.Res {
	gen := func(k int) any {
		if impl != nil {
			if op.K == "bulk" {
				if v, ok := impl.UpsertedIDs[int64(k)]; ok {
					return v
				}
			} else if k < len(impl.IDs) {
				return impl.IDs[k]
			}
		}
		if lastID != nil && (op.K == "findOneAndUpdate" || op.K == "findOneAndReplace") {
			// these calls do not report the id they generated: an upserted document is the newest one
			return lastID
		}
		return "<<no-generated-id>>"
	}
	n := ns(op)
	fo := model.FindOpts{Sort: op.S.doc(), Skip: op.Skip, Limit: op.Limit, Proj: op.P.doc()}
	switch op.K {
	case "e.expire":
		return model.Res{}
	case "rmw":
		r1 := st.FindOne(n, op.D.doc(), model.FindOpts{})
		cnt := int32(0)
		if len(r1.Docs) > 0 {
			if v, ok := model.Get(r1.Docs[0], "n").(int32); ok {
				cnt = v
			}
		}
		r2 := st.Update(n, op.D.doc(), bson.D{{Key: "$set", Value: bson.D{{Key: "n", Value: cnt + 1}, {Key: "by", Value: op.Tag}}}}, model.UpdateOpts{Upsert: true, Now: now}, gen)
		return model.Res{Docs: r1.Docs, NoDoc: r1.NoDoc, Matched: r2.Matched, Modified: r2.Modified, Upserted: r2.Upserted, IDs: r2.IDs, Err: r2.Err}
	case "insertOne":
		r := st.Insert(n, []bson.D{op.D.doc()}, true, gen)
		return r
	case "insertMany":
		return st.Insert(n, docsOf(op.Docs), op.Ordered, gen)
	case "find":
		return st.Find(n, op.F.doc(), fo)
	case "findLater":
		return st.Find(n, op.F.doc(), model.FindOpts{})
	case "findOne":
		return st.FindOne(n, op.F.doc(), fo)
	case "count":
		return st.Count(n, op.F.doc(), op.Skip, op.Limit)
	case "estCount":
		return st.Estimated(n)
	case "distinct":
		return st.DistinctOp(n, op.Field, op.F.doc())
	case "updateOne", "updateMany":
		return st.Update(n, op.F.doc(), op.U.doc(), model.UpdateOpts{Multi: op.K == "updateMany", Upsert: op.Upsert, Now: now}, gen)
	case "replaceOne":
		return st.Replace(n, op.F.doc(), op.D.doc(), op.Upsert, gen)
	case "deleteOne", "deleteMany":
		return st.Delete(n, op.F.doc(), op.K == "deleteMany")
	case "findOneAndUpdate":
		return st.FindOneAndUpdate(n, op.F.doc(), op.U.doc(), model.UpdateOpts{Upsert: op.Upsert, Sort: op.S.doc(), Now: now}, op.After, op.P.doc(), gen)
	case "findOneAndReplace":
		return st.FindOneAndReplace(n, op.F.doc(), op.D.doc(), op.Upsert, op.S.doc(), op.After, op.P.doc(), gen)
	case "findOneAndDelete":
		return st.FindOneAndDelete(n, op.F.doc(), op.S.doc(), op.P.doc())
	case "bulk":
		var items []model.BulkItem
		for i := range op.Items {
			it := &op.Items[i]
			items = append(items, model.BulkItem{Kind: it.K, Doc: it.D.doc(), Filter: it.F.doc(), Update: it.U.doc(), Upsert: it.Upsert})
		}
		return st.Bulk(n, items, op.Ordered, now, gen)
	case "createIndex":
		ix := model.Index{Name: op.Name, Key: op.D.doc(), Unique: op.Unique, Partial: op.P.doc()}
		if op.TTL != nil {
			ix.TTL = time.Duration(*op.TTL) * time.Second
			if *op.TTL == 0 {
				ix.TTL = time.Nanosecond
			}
		}
		return st.CreateIndex(n, ix)
	case "dropIndex":
		return st.DropIndex(n, op.Name)
	case "dropIndexKey":
		return st.DropIndexByKey(n, op.D.doc())
	case "dropAllIndexes":
		return st.DropAllIndexes(n)
	case "listIndexes":
		return st.ListIndexes(n)
	case "createColl":
		return st.CreateCollection(n)
	case "dropColl":
		return st.DropCollection(n)
	case "dropDB":
		return st.DropDatabase(op.DB)
	case "listColls":
		return st.ListCollections(op.DB)
	case "listDBs":
		return st.ListDatabases()
	}
	panic("harness: unknown model op " + op.K)
}

func valStr(v any) string {
	b, err := bson.MarshalExtJSON(bson.D{{Key: "v", Value: v}}, true, false)
	if err != nil {
		return fmt.Sprintf("%#v", v)
	}
	return string(b)
}

func docStr(d bson.D) string {
	b, err := bson.MarshalExtJSON(d, true, false)
	if err != nil {
		return fmt.Sprintf("%#v", d)
	}
	return string(b)
}

func sameVal(a, b any) bool {
	return model.Same(bson.D{{Key: "v", Value: a}}, bson.D{{Key: "v", Value: b}})
}

// diffRes compares the model's and the implementation's result of one call.
// It returns "" if they agree.
func diffRes(k string, want, got model.Res) string {
	var diffs []string
	add := func(f string, a ...any) { diffs = append(diffs, fmt.Sprintf(f, a...)) }
	if want.Err != got.Err {
		add("error class: model %q impl %q", want.Err, got.Err)
	}
	if want.Matched != got.Matched || want.Modified != got.Modified || want.Upserted != got.Upserted || want.Deleted != got.Deleted || want.Inserted != got.Inserted || want.Count != got.Count {
		add("counts: model matched=%d modified=%d upserted=%d deleted=%d inserted=%d count=%d, impl matched=%d modified=%d upserted=%d deleted=%d inserted=%d count=%d",
			want.Matched, want.Modified, want.Upserted, want.Deleted, want.Inserted, want.Count,
			got.Matched, got.Modified, got.Upserted, got.Deleted, got.Inserted, got.Count)
	}
	if want.NoDoc != got.NoDoc {
		add("no-document: model %v impl %v", want.NoDoc, got.NoDoc)
	}
	if len(want.IDs) != len(got.IDs) {
		add("ids: model %d impl %d", len(want.IDs), len(got.IDs))
	} else {
		for i := range want.IDs {
			if !sameVal(want.IDs[i], got.IDs[i]) {
				add("id %d: model %s impl %s", i, valStr(want.IDs[i]), valStr(got.IDs[i]))
			}
		}
	}
	if len(want.Docs) != len(got.Docs) {
		add("documents: model %d impl %d", len(want.Docs), len(got.Docs))
	} else {
		for i := range want.Docs {
			if !model.Same(want.Docs[i], got.Docs[i]) {
				add("document %d: model %s impl %s", i, docStr(want.Docs[i]), docStr(got.Docs[i]))
			}
		}
	}
	if len(want.Vals) != len(got.Vals) {
		add("values: model %d impl %d", len(want.Vals), len(got.Vals))
	} else {
		for i := range want.Vals {
			if !model.Equal(want.Vals[i], got.Vals[i]) {
				add("value %d: model %s impl %s", i, valStr(want.Vals[i]), valStr(got.Vals[i]))
			}
		}
	}
	if strings.Join(want.Names, ",") != strings.Join(got.Names, ",") {
		add("names: model %v impl %v", want.Names, got.Names)
	}
	if k == "bulk" {
		if fmt.Sprint(want.ErrIdx) != fmt.Sprint(got.ErrIdx) {
			add("failing items: model %v impl %v", want.ErrIdx, got.ErrIdx)
		} else if fmt.Sprint(want.ErrDups) != fmt.Sprint(got.ErrDups) {
			add("failing item classes: model %v impl %v", want.ErrDups, got.ErrDups)
		}
		if len(want.UpsertedIDs) != len(got.UpsertedIDs) {
			add("upserted ids: model %d impl %d", len(want.UpsertedIDs), len(got.UpsertedIDs))
		} else {
			for i, v := range want.UpsertedIDs {
				if g, ok := got.UpsertedIDs[i]; !ok || !sameVal(v, g) {
					add("upserted id %d differs", i)
				}
			}
		}
	}
	return strings.Join(diffs, "; ")
}

func indexModel(keys bson.D) mongo.IndexModel { return mongo.IndexModel{Keys: keys} }
