#!/bin/sh
# usage: tools/mutant.sh <patch> <property> [budget]   -- applies a patch to /repo, runs the quick check, reverts.
# Evidence and replay files of mutant runs go to a throw-away directory: /verif/evidence and
# /verif/replays only ever describe runs on the tree under test.
set -u
P=$1; PROP=$2; B=${3:-20}
git -C /repo apply "$(realpath $P)" || { echo "patch does not apply"; exit 3; }
T=$(mktemp -d /var/tmp/verif-mutant-XXXXXX)
cd /verif && VERIF_EVIDENCE_DIR=$T/evidence VERIF_REPLAY_DIR=$T/replays ./verif check "$PROP" --budget "$B" 2>&1 | grep -E "^(C[0-9]+ |violation|VIOLATION|VERIF-FAULT|KNOWN)" | cut -c1-400 | head -8
git -C /repo checkout -- .
rm -rf "$T"
