package harness

import (
	"context"
	"errors"
	"fmt"
	"strings"
	"testing"
	"time"

	"github.com/256dpi/lungo"
	"github.com/256dpi/lungo/verifsim/simrt"
	"go.mongodb.org/mongo-driver/bson"
)

// C16 - the engine never wedges: the writer slot is always freed, shutdown completes.

func init() {
	register(&Property{ID: "C16", Gen: genC16, Exec: execC16})
}

func pick[T any](r interface{ IntN(int) int }, xs ...T) T { return xs[r.IntN(len(xs))] }

// genC16Waiters: several consumers wait on one stream (and writers on the slot) when the engine is shut down:
// every one of them must be woken by the shutdown.
func genC16Waiters(seed uint64, run int) *Plan {
	r := newRNG(seed, 161)
	p := &Plan{Prop: "C16", Seed: seed, Run: run}
	p.Cfg = Cfg{Store: "mem", Strategy: pick(r, "random", "pct", "sticky", "rr"), PCTDepth: 1 + r.IntN(3), ExpireMs: pick(r, int64(200), 60000), CloseAtEnd: false}
	p.Cfg.Fine = fineKnob(seed, 15, 3)
	n := 2 + r.IntN(2)
	for i := 0; i < n; i++ {
		tp := TaskPlan{Name: fmt.Sprintf("actor%d", i), Role: "actor"}
		if i == 0 {
			tp.Ops = append(tp.Ops, Op{K: "watch", Scope: pick(r, "client", "db", "coll"), DB: "db", C: "c"})
		} else {
			tp.Ops = append(tp.Ops, Op{K: "sleep", Ms: int64(1 + r.IntN(50))})
		}
		tp.Ops = append(tp.Ops, Op{K: "next", N: 100, Ctx: "deadline", Ms: int64(3000 + r.IntN(6000))})
		p.Tasks = append(p.Tasks, tp)
	}
	if r.IntN(2) == 0 {
		// a writer holding the slot and one queued behind it
		p.Tasks = append(p.Tasks, TaskPlan{Name: "holder", Role: "actor", Ops: []Op{{K: "e.write", DB: "db", C: "e", Tag: "h", End: "commit", N: 2000 + r.IntN(3000)}}})
		p.Tasks = append(p.Tasks, TaskPlan{Name: "queued", Role: "actor", Ops: []Op{{K: "sleep", Ms: 20}, {K: "insertOne", DB: "db", C: "c", D: jd(bson.D{{Key: "_id", Value: int32(1)}})}}})
	}
	p.Tasks = append(p.Tasks, TaskPlan{Name: "closer", Role: "actor", Ops: []Op{{K: "sleep", Ms: int64(100 + r.IntN(1500))}, {K: "close"}}})
	return p
}

func genC16(seed uint64, run int, tier string) *Plan {
	if newRNG(seed, 0x616).IntN(100) < 6 {
		return genC16Waiters(seed, run)
	}
	r := newRNG(seed, 16)
	p := &Plan{Prop: "C16", Seed: seed, Run: run}
	p.Cfg = Cfg{
		Store:    "mem",
		Strategy: pick(r, "random", "random", "pct", "pct", "sticky", "nonpreempt", "rr"),
		PCTDepth: 1 + r.IntN(3),
		ExpireMs: pick(r, int64(20), 200, 1000, 60000),
	}
	if r.IntN(4) == 0 {
		p.Cfg.TimePassPct = 1 + r.IntN(5)
	}
	if r.IntN(5) == 0 {
		p.Cfg.Store = "file"
	}
	if p.Cfg.Store == "file" {
		p.Cfg.DiskLatMs = pick(newRNG(seed, 0xd15c), int64(0), 0, 1, 5, 20)
	}
	p.Cfg.SharedSess = r.IntN(4) == 0
	p.Cfg.Fine = fineTier(tier, seed, 15, 3)
	p.Cfg.CloseAtEnd = r.IntN(2) == 0
	ntasks := 2 + r.IntN(3)
	closer := -1
	if r.IntN(3) == 0 {
		closer = r.IntN(ntasks)
	}
	tag := 0
	nextTag := func() string { tag++; return fmt.Sprintf("t%d", tag) }
	ctxMode := func() (string, int64) {
		switch r.IntN(10) {
		case 0:
			return "cancel", 0
		case 1:
			return "deadline", int64(1 + r.IntN(3000))
		}
		return "", 0
	}
	driverOp := func() Op {
		id := r.IntN(4)
		switch r.IntN(6) {
		case 0, 1:
			return Op{K: "insertOne", DB: "db", C: "c", D: jd(bson.D{{Key: "_id", Value: int32(id)}, {Key: "v", Value: nextTag()}})}
		case 2:
			return Op{K: "updateOne", DB: "db", C: "c", F: jd(bson.D{{Key: "_id", Value: int32(id)}}), U: jd(bson.D{{Key: "$inc", Value: bson.D{{Key: "n", Value: int32(1)}}}}), Upsert: r.IntN(2) == 0}
		case 3:
			return Op{K: "deleteOne", DB: "db", C: "c", F: jd(bson.D{{Key: "_id", Value: int32(id)}})}
		case 4:
			return Op{K: "find", DB: "db", C: "c", F: jd(bson.D{})}
		default:
			// a write that fails inside the library
			return Op{K: "updateOne", DB: "db", C: "c", F: jd(bson.D{}), U: jd(bson.D{{Key: "$bogus", Value: bson.D{{Key: "n", Value: int32(1)}}}})}
		}
	}
	for ti := 0; ti < ntasks; ti++ {
		tp := TaskPlan{Name: fmt.Sprintf("actor%d", ti), Role: "actor"}
		nops := deepen(tier, seed, 1+r.IntN(6))
		closeAt := -1
		if ti == closer {
			closeAt = r.IntN(nops + 1)
		}
		for oi := 0; oi < nops; oi++ {
			if oi == closeAt {
				tp.Ops = append(tp.Ops, Op{K: "close"})
			}
			var op Op
			switch k := r.IntN(20); {
			case k < 4:
				op = driverOp()
				op.Ctx, op.Ms = ctxMode()
			case k < 8:
				op = Op{K: "e.write", DB: "db", C: "e", Tag: nextTag(), End: pick(r, "commit", "commit", "abort", "commit2", "commit-abort")}
				if r.IntN(3) == 0 {
					op.N = 1 + r.IntN(3000) // hold the slot (ms)
				}
				op.Ctx, op.Ms = ctxMode()
			case k < 9:
				op = Op{K: "e.read", DB: "db", C: "e"}
			case k < 10:
				op = Op{K: "e.stale", End: pick(r, "commit", "abort")}
			case k < 13:
				op = Op{K: "s.txn", End: pick(r, "commit", "abort", "end"), Tag: nextTag()}
				for n := r.IntN(3); n >= 0; n-- {
					op.Sub = append(op.Sub, driverOp())
				}
				op.Ctx, op.Ms = ctxMode()
				if r.IntN(5) < 2 {
					op.Sess = privSess
				}
			case k < 16:
				op = Op{K: "s.with", End: pick(r, "commit", "commit", "error", "panic"), Tag: nextTag()}
				for n := r.IntN(3); n >= 0; n-- {
					op.Sub = append(op.Sub, driverOp())
				}
				if r.IntN(4) == 0 {
					op.Sub = append(op.Sub, Op{K: "sleep", Ms: int64(1 + r.IntN(2000))})
				}
				op.Ctx, op.Ms = ctxMode()
				if r.IntN(5) < 2 {
					op.Sess = privSess
				}
			case k < 17:
				op = Op{K: "watch", Scope: pick(r, "client", "db", "coll"), DB: "db", C: "c"}
			case k < 18:
				op = Op{K: pick(r, "next", "trynext"), N: r.IntN(3), Ctx: pick(r, "deadline", "deadline", "cancel"), Ms: int64(1 + r.IntN(5000))}
				if r.IntN(3) == 0 {
					op.N = 100 + r.IntN(4) // a stream some other actor may be waiting on too
				}
			case k < 19:
				op = Op{K: "closeStream", N: r.IntN(3)}
			default:
				op = Op{K: "sleep", Ms: int64(1 + r.IntN(1500))}
			}
			if p.Cfg.SharedSess && r.IntN(3) == 0 {
				op = Op{K: pick(r, "s.start", "s.start", "s.commit", "s.commit", "s.abort", "s.end", "s.op", "s.op", "s.op"), Sess: 0}
				if op.K == "s.op" {
					op.Sub = []Op{driverOp()}
				}
			}
			tp.Ops = append(tp.Ops, op)
		}
		if closeAt == nops {
			tp.Ops = append(tp.Ops, Op{K: "close"})
		}
		p.Tasks = append(p.Tasks, tp)
	}
	// one fault per run (about a third of the runs are fault-free)
	switch r.IntN(6) {
	case 0:
		p.Faults = append(p.Faults, Fault{Kind: "store-before", At: r.IntN(6)})
	case 1:
		p.Faults = append(p.Faults, Fault{Kind: "store-after", At: r.IntN(6)})
	case 2:
		p.Faults = append(p.Faults, Fault{Kind: "store-latency", At: r.IntN(6), Ms: int64(1 + r.IntN(5000))})
	case 3:
		p.Faults = append(p.Faults, Fault{Kind: "delay", At: r.IntN(60), Task: r.IntN(ntasks) + 1, N: 5 + r.IntN(60)})
	case 4:
		p.Faults = append(p.Faults, Fault{Kind: "store-slow-fail", At: r.IntN(6), Ms: int64(1 + r.IntN(3000))})
	}
	return p
}

// acceptable error classes per operation kind; anything else means the engine misbehaved.
func c16Acceptable(op *Op, class string, closed bool, sharedSess bool) bool {
	switch class {
	case "ok", "ctx-cancelled", "ctx-deadline", "store-fault":
		return true
	case "closed":
		return closed
	case "dup":
		return op.K == "insertOne" || op.K == "s.txn" || op.K == "s.with" || op.K == "e.write" || op.K == "updateOne" || op.K == "s.op"
	}
	switch op.K {
	case "e.stale", "e.write":
		// misuse of a finished handle is answered with an error, never with damage
		if op.K == "e.stale" || op.End == "commit2" || op.End == "commit-abort" {
			return class == "no active transaction" || class == "transaction mismatch"
		}
	case "s.start", "s.commit", "s.abort", "s.end":
		return class == "existing transaction" || class == "missing transaction" || class == "session-ended"
	case "s.op":
		return class == "detected nested transaction" || (strings.HasPrefix(class, "other:") && strings.Contains(class, "$bogus"))
	case "s.txn", "s.with":
		if class == "other:"+errCallback.Error() {
			return true
		}
		if sharedSess {
			return false
		}
	case "updateOne":
		return strings.HasPrefix(class, "other:") && strings.Contains(class, "$bogus")
	case "next", "trynext":
		return class == "lost-position"
	}
	return false
}

func execC16(t *testing.T, plan *Plan) *Outcome {
	return runPlan(t, plan, func(e *Env) {
		sim := e.sim
		var actors []*actor
		setupDone := false
		sim.Go("setup", false, func(*simrt.Task) {
			if err := e.open(); err != nil {
				e.out.Harness = "open failed: " + err.Error()
				return
			}
			if plan.Cfg.SharedSess {
				s, _ := e.client.StartSession()
				e.sharedSess = append(e.sharedSess, s)
			}
			setupDone = true
			for i, tp := range plan.Tasks {
				a := &actor{e: e, idx: i}
				a.afterCall = func(a *actor, c *CallRec) { c16Check(e, a, c) }
				actors = append(actors, a)
				ops := tp.Ops
				a.t = sim.Go(tp.Name, false, func(*simrt.Task) { a.run(ops) })
			}
		})
		sim.Run()
		if !setupDone || e.out.Harness != "" {
			return
		}
		e.out.Nontrivial = e.out.ChoicePoints > 0 || sim.ChoicePoints() > 0
		if c16Stalled(e, "actors") {
			return
		}
		if e.failed() {
			return
		}
		// every transaction the actors began is finished: a fresh write must proceed immediately
		// (from here on simulated time only advances when nothing can run, so elapsed time measures waiting)
		sim.SetTimePass(0)
		e.storeFaults, e.diskFaults, e.stepFaults = map[int]Fault{}, map[int]Fault{}, map[int][]Fault{}
		closed := e.closedByPlan()
		if len(e.sharedSess) > 0 {
			// a shared session may legitimately still hold the slot: end it
			sim.Go("end-shared", false, func(*simrt.Task) {
				for _, s := range e.sharedSess {
					s.EndSession(context.Background())
				}
			})
			sim.Run()
			if c16Stalled(e, "ending the shared session") {
				return
			}
		}
		if !closed {
			var perr error
			var took time.Duration
			var steps int
			sim.Go("probe", false, func(*simrt.Task) {
				t0, s0 := sim.Elapsed(), sim.Steps()
				_, perr = e.client.Database("db").Collection("probe").InsertOne(context.Background(), bson.D{{Key: "_id", Value: "probe"}})
				took, steps = sim.Elapsed()-t0, sim.Steps()-s0
			})
			sim.Run()
			if c16Stalled(e, "probe write") {
				return
			}
			if perr != nil {
				e.violate(violation("C16", "slot-leaked", classKey(perr), fmt.Sprintf("a write issued after all actors finished failed: %v", perr)))
				return
			}
			if took >= time.Second {
				e.violate(violation("C16", "slot-leaked", "slow", fmt.Sprintf("a write issued after all actors finished needed %v of simulated time (%d steps)", took, steps)))
				return
			}
			e.probe("probe-write-ok")
			if plan.Cfg.CloseAtEnd {
				sim.Go("closer", false, func(t *simrt.Task) {
					a := &actor{e: e, t: t, idx: 99}
					a.exec(&Op{K: "close"})
				})
				sim.Run()
				if c16Stalled(e, "Engine.Close") {
					return
				}
				closed = true
			}
		}
		if closed && !e.failed() {
			e.probe("closed-engine-checked")
			sim.Go("after-close", false, func(*simrt.Task) { c16AfterClose(e) })
			sim.Run()
			c16Stalled(e, "calls after close")
		}
	})
}

func classKey(err error) string {
	k := classifyErr(err)
	if strings.HasPrefix(k, "other:") {
		return "other"
	}
	return strings.ReplaceAll(k, " ", "-")
}

func (e *Env) closedByPlan() bool { return e.closing }

// c16Stalled reports deadlocks, stalls and panics as violations.
func c16Stalled(e *Env, phase string) bool {
	sim := e.sim
	switch {
	case sim.PanicVal != nil:
		msg := fmt.Sprint(sim.PanicVal)
		if c, ok := sim.PanicVal.(simosCrash); ok {
			msg = c.Error()
		}
		e.violate(violation("C16", "panic", panicKey(msg), fmt.Sprintf("task %s panicked during %s: %s", sim.PanicTask, phase, msg)))
		return true
	case sim.Deadlock != "":
		e.violate(violation("C16", "deadlock", "lock-cycle", fmt.Sprintf("during %s: %s", phase, sim.Deadlock)))
		return true
	case sim.TimeOut:
		e.violate(violation("C16", "deadlock", "stall", fmt.Sprintf("during %s no call completed for more than two simulated minutes: %s", phase, e.stallReport())))
		return true
	case sim.StepsOut:
		e.out.Harness = "step budget exhausted during " + phase + ": " + e.stallReport()
		return true
	}
	return false
}

func panicKey(msg string) string {
	msg = strings.ToLower(msg)
	for _, k := range []string{"semaphore full", "unlock of unlocked", "nil pointer", "close of closed channel", "send on closed channel", "index out of range"} {
		if strings.Contains(msg, k) {
			return strings.ReplaceAll(k, " ", "-")
		}
	}
	return "other"
}

// c16Check is evaluated after every call of every actor.
func c16Check(e *Env, a *actor, c *CallRec) {
	if c.Op.K == "close" {
		return
	}
	if c.Panic != nil {
		e.violate(violation("C16", "panic", panicKey(fmt.Sprint(c.Panic)), fmt.Sprintf("%s: %s panicked: %v", a.t.Name, opStr(c.Op), c.Panic)))
		return
	}
	closed := e.closedByPlan()
	class := classifyErr(c.Err)
	if (c.Op.K == "next" || c.Op.K == "trynext") && e.closed && c.InvAt < e.closedAt && e.plan.Cfg.TimePassPct == 0 {
		// shutdown closes every stream: a consumer that was waiting when Engine.Close returned is woken by it
		// and does not sit out its own deadline
		if d := c.RetAt - e.closedAt; d >= time.Second {
			e.violate(violation("C16", "close-did-not-wake", c.Op.K, fmt.Sprintf("%s: %s was waiting when Engine.Close returned and came back only %v of simulated time later (%v)", a.t.Name, opStr(c.Op), d, c.Err)))
			return
		}
	}
	if class == "closed" && e.closed && c.InvAt < e.closedAt && e.plan.Cfg.TimePassPct == 0 {
		// the call was in flight when Engine.Close returned: shutdown must have woken it, it may not sit out a timer
		simple := false
		switch c.Op.K {
		case "insertOne", "updateOne", "deleteOne", "find", "e.read":
			simple = true
		case "e.write":
			simple = c.Op.N == 0
		}
		if d := c.RetAt - e.closedAt; simple && d >= time.Second {
			e.violate(violation("C16", "close-did-not-wake", c.Op.K, fmt.Sprintf("%s: %s was in flight when Engine.Close returned and came back with the closed error only %v of simulated time later", a.t.Name, opStr(c.Op), d)))
			return
		}
	}
	if class == "token acquisition timeout" && (e.plan.Cfg.SharedSess || e.plan.Cfg.TimePassPct > 0) {
		e.probe("legit-token-timeout")
		return
	}
	if !c16Acceptable(c.Op, class, closed, e.plan.Cfg.SharedSess) {
		e.violate(violation("C16", "unexpected-error", classKey(c.Err), fmt.Sprintf("%s: %s returned %v", a.t.Name, opStr(c.Op), c.Err)))
	}
	if class == "token acquisition timeout" {
		if e.plan.Cfg.SharedSess || e.plan.Cfg.TimePassPct > 0 {
			// an open transaction on the shared session (or freely passing time) can hold the slot
			// for a simulated minute legitimately; the end-of-run probe still decides leaks
			e.probe("legit-token-timeout")
			return
		}
		e.violate(violation("C16", "slot-leaked", "timeout", fmt.Sprintf("%s: %s could not obtain the writer slot", a.t.Name, opStr(c.Op))))
	}
}

// c16AfterClose: after shutdown every call returns the closed error promptly.
func c16AfterClose(e *Env) {
	t0 := e.sim.Elapsed()
	check := func(what string, err error) {
		if !errors.Is(err, lungo.ErrEngineClosed) {
			e.violate(violation("C16", "call-after-close", what, fmt.Sprintf("%s after Engine.Close returned %v instead of the closed error", what, err)))
		}
	}
	ctx := context.Background()
	coll := e.client.Database("db").Collection("c")
	_, err := coll.InsertOne(ctx, bson.D{{Key: "x", Value: 1}})
	check("InsertOne", err)
	_, err = coll.Find(ctx, bson.D{})
	check("Find", err)
	_, err = coll.UpdateOne(ctx, bson.D{}, bson.D{{Key: "$set", Value: bson.D{{Key: "x", Value: 1}}}})
	check("UpdateOne", err)
	_, err = e.engine.Begin(ctx, true)
	check("Begin(true)", err)
	_, err = e.engine.Begin(ctx, false)
	check("Begin(false)", err)
	_, err = e.client.Watch(ctx, bson.A{})
	check("Watch", err)
	_, err = coll.Indexes().CreateOne(ctx, indexModel(bson.D{{Key: "x", Value: 1}}))
	check("CreateIndex", err)
	sess, _ := e.client.StartSession()
	check("StartTransaction", sess.StartTransaction())
	e.engine.Close() // idempotent
	if d := e.sim.Elapsed() - t0; d >= time.Second {
		e.violate(violation("C16", "call-after-close", "slow", fmt.Sprintf("calls after close needed %v", d)))
	}
}
