// Package simrt is the seeded cooperative scheduler of the lungo simulator.
//
// It is copied into the instrumented scratch copy of the lungo module as
// github.com/256dpi/lungo/verifsim/simrt. Instrumented code calls Yield at
// every scheduling point; simsync/simos/simtime build on Park and Yield. When
// no simulation is active every entry point is a cheap no-op, so the
// instrumented module still behaves like the original one (pass-through).
//
// Real goroutines are used, released one at a time: the scheduler (the root
// goroutine of a testing/synctest bubble) waits for quiescence, computes the
// set of runnable tasks, lets its strategy pick one and wakes it. A task runs
// until its next scheduling point. Tasks blocked inside real channel
// operations or timers are "external": the bubble's fake clock advances only
// when everything is durably blocked, and the first thing a goroutine executes
// after such a wake-up is an inserted Yield.
package simrt

import (
	"fmt"
	"math/rand/v2"
	"reflect"
	"runtime"
	"sort"
	"strconv"
	"strings"
	"sync"
	"sync/atomic"
	"testing/synctest"
	"time"
)

// TaskState is the scheduler's view of a task.
type TaskState int

// Task states. A task that is Running after quiescence is blocked externally.
const (
	Running TaskState = iota
	Parked
	Done
)

// Killed is the sentinel panic value used to unwind workload tasks.
type Killed struct{ Reason string }

func (k Killed) Error() string { return "simrt: task killed: " + k.Reason }

// Task is one scheduled goroutine.
type Task struct {
	ID     int
	Name   string
	Auto   bool // registered itself (engine background goroutine)
	Daemon bool // the run does not wait for it

	goid    uint64
	wake    chan struct{}
	state   TaskState
	cond    func() bool
	waitObj any
	site    string
	kill    bool
	killMsg string
	perm    bool // teardown task: never killed, never waits
	delay   int  // not runnable before this step

	// Progress is bumped by the harness whenever the task completes an
	// operation; the stall detector looks at it.
	Progress int
	// Data is free for the harness.
	Data any
}

// Site returns the last scheduling site of the task.
func (t *Task) Site() string { return t.site }

// State returns the task state (only meaningful from the scheduler or the task
// itself).
func (t *Task) State() TaskState { return t.state }

// Step is one scheduling decision.
type Step struct {
	Task int
	Site string
}

// Config configures a simulation.
type Config struct {
	Seed        uint64
	Strategy    string // random | sticky | pct | nonpreempt | rr
	PCTDepth    int
	MaxSteps    int
	MaxSimTime  time.Duration
	StallAfter  time.Duration // simulated time without workload progress after which the run is declared stalled
	TimePassPct int           // percent of steps at which the scheduler lets time pass although tasks are runnable
	TimeJump    time.Duration // maximum jump of such a step
	Schedule    []int         // recorded task ids (replay); consumed first
	UnlockYield bool          // also yield after unlocking
	Fine        int           // statement-level scheduling points: 0 none, 1 protocol files (Fine), 2 whole protocol packages (Fine and FineAll)
}

// Sim is one simulation run.
type Sim struct {
	cfg Config

	mu       sync.Mutex // real mutex protecting the task table
	byGoid   map[uint64]*Task
	tasks    []*Task
	nextID   int
	nextAuto int
	notify   chan struct{}
	rootGoid uint64

	schedRNG *rand.Rand
	timeRNG  *rand.Rand
	mapRNG   *rand.Rand
	diskRNG  *rand.Rand

	steps      int
	Trace      []Step
	Choices    []int
	nChoices   int // number of steps with more than one runnable task
	last       *Task
	prio       map[int]int
	pctPoints  map[int]bool
	drain      bool
	start      time.Time
	lastProg   int
	lastProgAt time.Time

	// outcome
	Deadlock     string
	StepsOut     bool
	TimeOut      bool
	PanicVal     any
	PanicStack   string
	PanicTask    string
	NativeRanges int         // map ranges that could not be ordered canonically
	FineYields   int         // statement-level scheduling points taken
	ptrIDs       map[any]int // registration order of pointer map keys (NoteKey)
	TimePassed   int         // number of "let time pass" steps taken

	wallOffset atomic.Int64 // nanoseconds added to the bubble clock by simtime.Now

	// OnStep, if set, is called by the scheduler (root goroutine) after
	// quiescence and before each decision. It must not call instrumented code
	// that can block. If it returns true it has woken goroutines (cancelled a
	// context, ...) and the scheduler waits for quiescence again.
	OnStep func(s *Sim) bool
}

var active atomic.Pointer[Sim]

// Active returns the running simulation or nil.
func Active() *Sim { return active.Load() }

// New creates a simulation. It must be called inside a synctest bubble by the
// goroutine that will call Run.
func New(cfg Config) *Sim {
	if cfg.MaxSteps == 0 {
		cfg.MaxSteps = 5000
	}
	if cfg.MaxSimTime == 0 {
		cfg.MaxSimTime = 6 * time.Hour
	}
	if cfg.StallAfter == 0 {
		cfg.StallAfter = 150 * time.Second
	}
	if cfg.TimeJump == 0 {
		cfg.TimeJump = 2 * time.Second
	}
	s := &Sim{
		cfg:       cfg,
		byGoid:    map[uint64]*Task{},
		nextAuto:  1000,
		notify:    make(chan struct{}, 1),
		rootGoid:  goid(),
		schedRNG:  rand.New(rand.NewPCG(cfg.Seed, 0x5c4ed)),
		timeRNG:   rand.New(rand.NewPCG(cfg.Seed, 0x71e)),
		mapRNG:    rand.New(rand.NewPCG(cfg.Seed, 0x3a9)),
		diskRNG:   rand.New(rand.NewPCG(cfg.Seed, 0xd15c)),
		prio:      map[int]int{},
		pctPoints: map[int]bool{},
		start:     time.Now(),
	}
	if cfg.Strategy == "pct" {
		d := cfg.PCTDepth
		if d < 1 {
			d = 1
		}
		est := 400
		if cfg.Fine > 0 {
			est = 1500 * cfg.Fine * cfg.Fine
		}
		for i := 0; i < d-1; i++ {
			s.pctPoints[s.schedRNG.IntN(est)] = true
		}
	}
	if !active.CompareAndSwap(nil, s) {
		panic("simrt: a simulation is already active")
	}
	return s
}

// Finish deactivates the simulation. All tasks must be done.
func (s *Sim) Finish() { active.CompareAndSwap(s, nil) }

// DiskRNG returns the PRNG stream reserved for the simulated disk.
func (s *Sim) DiskRNG() *rand.Rand { return s.diskRNG }

// Steps returns the number of scheduling decisions taken.
func (s *Sim) Steps() int { return s.steps }

// ChoicePoints returns the number of steps at which more than one task was runnable.
func (s *Sim) ChoicePoints() int { return s.nChoices }

// Elapsed returns the simulated time since the start of the run.
func (s *Sim) Elapsed() time.Duration { return time.Since(s.start) }

// Draining reports whether the run is being torn down.
func (s *Sim) Draining() bool { return s.drain }

// WallOffset returns the offset simtime.Now adds to the bubble clock.
func (s *Sim) WallOffset() time.Duration { return time.Duration(s.wallOffset.Load()) }

// SetWallOffset sets the wall clock offset (clock steps forward/backward).
func (s *Sim) SetWallOffset(d time.Duration) { s.wallOffset.Store(int64(d)) }

// progress is a counter that changes whenever a workload task completes an
// operation, starts or finishes.
func (s *Sim) progress() int {
	s.mu.Lock()
	defer s.mu.Unlock()
	p := 0
	for _, t := range s.tasks {
		if t.Daemon {
			continue
		}
		p += t.Progress + 1
		if t.state == Done {
			p++
		}
	}
	return p
}

// ResetStall restarts the stall detector (a new phase of the run begins).
func (s *Sim) ResetStall() { s.lastProgAt = time.Time{} }

// SetTimePass changes the percentage of steps at which the scheduler lets
// simulated time pass although tasks are runnable (0: the clock only moves
// when nothing can run).
func (s *Sim) SetTimePass(pct int) { s.cfg.TimePassPct = pct }

// Tasks returns all tasks.
func (s *Sim) Tasks() []*Task {
	s.mu.Lock()
	defer s.mu.Unlock()
	return append([]*Task(nil), s.tasks...)
}

func goid() uint64 {
	var buf [40]byte
	n := runtime.Stack(buf[:], false)
	// "goroutine 123 [running]:"
	b := buf[10:n]
	var id uint64
	for _, c := range b {
		if c < '0' || c > '9' {
			break
		}
		id = id*10 + uint64(c-'0')
	}
	return id
}

// Go starts a workload task. The function runs under the scheduler from its
// first instruction (the goroutine parks immediately).
func (s *Sim) Go(name string, daemon bool, fn func(t *Task)) *Task {
	return s.goTask(name, daemon, false, fn)
}

func (s *Sim) goPermissive(name string, fn func()) *Task {
	return s.goTask(name, true, true, func(*Task) { fn() })
}

func (s *Sim) goTask(name string, daemon, perm bool, fn func(t *Task)) *Task {
	s.mu.Lock()
	t := &Task{ID: s.nextID, Name: name, Daemon: daemon, perm: perm, wake: make(chan struct{}, 1), state: Parked, site: "start"}
	s.nextID++
	s.tasks = append(s.tasks, t)
	s.mu.Unlock()
	ready := make(chan struct{})
	go func() {
		s.mu.Lock()
		s.byGoid[goid()] = t
		s.mu.Unlock()
		close(ready)
		defer func() {
			r := recover()
			s.mu.Lock()
			if r != nil {
				if _, ok := r.(Killed); !ok {
					if s.PanicVal == nil {
						s.PanicVal = r
						s.PanicTask = t.Name
						s.PanicStack = string(stack())
					}
				}
			}
			t.state = Done
			s.mu.Unlock()
			s.poke()
		}()
		<-t.wake
		if t.kill {
			panic(Killed{t.killMsg})
		}
		fn(t)
	}()
	<-ready
	return t
}

func stack() []byte {
	buf := make([]byte, 16384)
	n := runtime.Stack(buf, false)
	return buf[:n]
}

func (s *Sim) poke() {
	select {
	case s.notify <- struct{}{}:
	default:
	}
}

// Current returns the task of the calling goroutine, registering it as an
// automatic task if it is unknown. It returns nil for the scheduler goroutine.
func (s *Sim) Current() *Task {
	g := goid()
	if g == s.rootGoid {
		return nil
	}
	s.mu.Lock()
	defer s.mu.Unlock()
	t := s.byGoid[g]
	if t == nil {
		t = &Task{ID: s.nextAuto, Name: "auto" + strconv.Itoa(s.nextAuto), Auto: true, Daemon: true, wake: make(chan struct{}, 1), state: Running, goid: g}
		s.nextAuto++
		s.byGoid[g] = t
		s.tasks = append(s.tasks, t)
	}
	return t
}

// ReapAuto marks automatic tasks whose goroutine has exited as Done and
// returns the ones that are still alive. It must be called while everything
// else is quiescent (from the scheduler, or from a task right after it was
// scheduled).
func (s *Sim) ReapAuto() (alive []*Task) {
	s.mu.Lock()
	var autos []*Task
	for _, t := range s.tasks {
		if t.Auto && t.state != Done {
			autos = append(autos, t)
		}
	}
	s.mu.Unlock()
	if len(autos) == 0 {
		return nil
	}
	buf := make([]byte, 1<<16)
	for {
		n := runtime.Stack(buf, true)
		if n < len(buf) {
			buf = buf[:n]
			break
		}
		buf = make([]byte, 2*len(buf))
	}
	live := map[uint64]bool{}
	for _, line := range strings.Split(string(buf), "\n") {
		if strings.HasPrefix(line, "goroutine ") {
			rest := line[len("goroutine "):]
			if i := strings.IndexByte(rest, ' '); i > 0 {
				if id, err := strconv.ParseUint(rest[:i], 10, 64); err == nil {
					live[id] = true
				}
			}
		}
	}
	s.mu.Lock()
	defer s.mu.Unlock()
	for _, t := range autos {
		if live[t.goid] {
			alive = append(alive, t)
		} else {
			t.state = Done
		}
	}
	return alive
}

// Yield is a plain scheduling point.
func Yield(site string) {
	s := active.Load()
	if s == nil {
		return
	}
	s.Park(site, nil, nil)
}

// Fine is a statement-level scheduling point. The instrumenter inserts it
// before every statement of the protocol packages; it only parks in runs that
// enable Config.Fine, so that critical sections whose atomicity rests on a
// lock (and not on the absence of a blocking call) are explored at statement
// granularity in a fraction of the runs and cost nothing in the others.
func Fine(site string) {
	s := active.Load()
	if s == nil || s.cfg.Fine < 1 {
		return
	}
	s.FineYields++
	s.Park(site, nil, nil)
}

// FineAll is Fine for the files that hold no synchronisation of their own (the
// bulk of the statements): only runs with Config.Fine >= 2 park here.
func FineAll(site string) {
	s := active.Load()
	if s == nil || s.cfg.Fine < 2 {
		return
	}
	s.FineYields++
	s.Park(site, nil, nil)
}

// NoteKey registers a pointer that is being inserted as a map key. MapRange
// orders registered pointer keys by registration order (which is a function of
// the schedule) before permuting them, so that ranging over a pointer-keyed
// map is seeded like any other map range.
func NoteKey[K comparable](k K) {
	s := active.Load()
	if s == nil {
		return
	}
	s.mu.Lock()
	if s.ptrIDs == nil {
		s.ptrIDs = map[any]int{}
	}
	if _, ok := s.ptrIDs[any(k)]; !ok {
		s.ptrIDs[any(k)] = len(s.ptrIDs)
	}
	s.mu.Unlock()
}

// SelectRecv replaces a blocking select statement whose cases all receive from channels. It returns the index
// of the chosen case, the received value and the ok flag. Inside a simulation several ready cases are resolved
// in source order (the runtime would pick one at random, which no seed controls); this is one of the choices
// the select statement allows. When nothing is ready it blocks like the statement it replaces.
func SelectRecv(chans ...any) (int, any, bool) {
	cases := make([]reflect.SelectCase, len(chans))
	for i, c := range chans {
		cases[i] = reflect.SelectCase{Dir: reflect.SelectRecv, Chan: reflect.ValueOf(c)}
	}
	val := func(v reflect.Value) any {
		if v.IsValid() && v.CanInterface() {
			return v.Interface()
		}
		return nil
	}
	if active.Load() != nil {
		for i := range cases {
			if !cases[i].Chan.IsValid() || cases[i].Chan.IsNil() {
				continue
			}
			if idx, v, ok := reflect.Select([]reflect.SelectCase{cases[i], {Dir: reflect.SelectDefault}}); idx == 0 {
				return i, val(v), ok
			}
		}
	}
	idx, v, ok := reflect.Select(cases)
	return idx, val(v), ok
}

// As converts a value received through SelectRecv back to its static type.
func As[T any](v any) T {
	if v == nil {
		var zero T
		return zero
	}
	return v.(T)
}

// Park parks the calling task until the scheduler wakes it. cond, if not nil,
// must hold for the task to be runnable; it is evaluated by the scheduler
// while everything is quiescent. obj names what the task waits for (deadlock
// reports).
func (s *Sim) Park(site string, cond func() bool, obj any) {
	t := s.Current()
	if t == nil {
		// the scheduler itself: never parks
		if cond != nil && !cond() {
			panic("simrt: scheduler goroutine would block at " + site)
		}
		return
	}
	if s.drain {
		if !t.Auto && !t.perm {
			if t.kill {
				// already unwinding: deferred calls must not park or panic again
				return
			}
			t.kill = true
			panic(Killed{"drain"})
		}
		// automatic tasks keep running one at a time but never wait for locks
		cond = nil
	}
	s.mu.Lock()
	t.state = Parked
	t.cond = cond
	t.waitObj = obj
	t.site = site
	s.mu.Unlock()
	s.poke()
	<-t.wake
	if t.kill && !t.Auto {
		panic(Killed{t.killMsg})
	}
}

// Unwinding reports whether the calling task is being unwound.
func (s *Sim) Unwinding() bool {
	t := s.Current()
	return t != nil && t.kill
}

// Kill marks a task so that it unwinds (panics with Killed) at its next wake-up.
func (s *Sim) Kill(t *Task, why string) {
	s.mu.Lock()
	t.kill = true
	t.killMsg = why
	s.mu.Unlock()
}

// Delay makes a task un-runnable for n scheduling steps.
func (s *Sim) Delay(t *Task, n int) { t.delay = s.steps + n }

func (s *Sim) pending() (runnable, parkedBlocked, external []*Task, workloadLeft bool) {
	s.mu.Lock()
	defer s.mu.Unlock()
	for _, t := range s.tasks {
		switch t.state {
		case Done:
			continue
		case Parked:
			if !t.Daemon {
				workloadLeft = true
			}
			if t.delay > s.steps && !s.drain {
				parkedBlocked = append(parkedBlocked, t)
				continue
			}
			if t.cond == nil || t.kill || s.drain || t.cond() {
				runnable = append(runnable, t)
			} else {
				parkedBlocked = append(parkedBlocked, t)
			}
		case Running:
			if !t.Daemon {
				workloadLeft = true
			}
			external = append(external, t)
		}
	}
	sort.Slice(runnable, func(i, j int) bool { return runnable[i].ID < runnable[j].ID })
	return
}

// Run is the scheduler loop. It returns when every non-daemon task is done or
// a budget is exhausted.
func (s *Sim) Run() {
	s.lastProgAt = time.Time{}
	for {
		synctest.Wait()
		if s.OnStep != nil && s.OnStep(s) {
			continue
		}
		runnable, blocked, external, left := s.pending()
		if !left {
			return
		}
		if s.steps >= s.cfg.MaxSteps {
			s.StepsOut = true
			return
		}
		if time.Since(s.start) > s.cfg.MaxSimTime {
			s.TimeOut = true
			return
		}
		if p := s.progress(); p != s.lastProg || s.lastProgAt.IsZero() {
			s.lastProg, s.lastProgAt = p, time.Now()
		} else if time.Since(s.lastProgAt) > s.cfg.StallAfter {
			s.TimeOut = true
			return
		}
		if len(blocked) > 0 {
			if c := s.lockCycle(blocked); c != "" {
				s.Deadlock = c
				return
			}
		}
		if len(runnable) == 0 {
			delayed := false
			for _, t := range blocked {
				if t.delay > s.steps {
					delayed = true
				}
			}
			if delayed {
				// only injected delays keep tasks from running: skip ahead
				s.steps++
				continue
			}
			if len(external) == 0 {
				s.Deadlock = s.describeBlocked(blocked)
				return
			}
			// everybody waits for a timer or a channel: let the clock move
			select {
			case <-s.notify:
			case <-time.After(s.cfg.MaxSimTime):
				s.TimeOut = true
				return
			}
			continue
		}
		if s.cfg.TimePassPct > 0 && len(external) > 0 && s.timeRNG.IntN(100) < s.cfg.TimePassPct {
			jump := time.Duration(s.timeRNG.Int64N(int64(s.cfg.TimeJump))) + 1
			s.TimePassed++
			// drain stale pokes first so that only a timer wake-up or our own timer ends the wait
			select {
			case <-s.notify:
			default:
			}
			select {
			case <-s.notify:
			case <-time.After(jump):
			}
			continue
		}
		pick := s.choose(runnable)
		s.steps++
		s.Trace = append(s.Trace, Step{pick.ID, pick.site})
		s.last = pick
		s.mu.Lock()
		pick.state = Running
		s.mu.Unlock()
		pick.wake <- struct{}{}
	}
}

func (s *Sim) choose(runnable []*Task) *Task {
	if len(runnable) > 1 {
		s.nChoices++
	}
	var pick *Task
	idx := len(s.Choices)
	if idx < len(s.cfg.Schedule) {
		for _, t := range runnable {
			if t.ID == s.cfg.Schedule[idx] {
				pick = t
			}
		}
	}
	if pick == nil {
		pick = s.strategy(runnable)
	}
	s.Choices = append(s.Choices, pick.ID)
	return pick
}

func contains(ts []*Task, t *Task) bool {
	for _, x := range ts {
		if x == t {
			return true
		}
	}
	return false
}

func (s *Sim) strategy(runnable []*Task) *Task {
	if len(runnable) == 1 {
		return runnable[0]
	}
	switch s.cfg.Strategy {
	case "sticky":
		if s.last != nil && contains(runnable, s.last) && s.schedRNG.IntN(100) < 80 {
			return s.last
		}
		return runnable[s.schedRNG.IntN(len(runnable))]
	case "nonpreempt":
		if s.last != nil && contains(runnable, s.last) && !strings.HasPrefix(s.last.site, "op") {
			return s.last
		}
		return runnable[s.schedRNG.IntN(len(runnable))]
	case "rr":
		if s.last != nil {
			for _, t := range runnable {
				if t.ID > s.last.ID {
					return t
				}
			}
		}
		return runnable[0]
	case "pct":
		if s.pctPoints[s.steps] && s.last != nil {
			s.prio[s.last.ID] = -s.steps // lowest so far
		}
		var best *Task
		for _, t := range runnable {
			if _, ok := s.prio[t.ID]; !ok {
				s.prio[t.ID] = 1 + s.schedRNG.IntN(1<<20)
			}
			if best == nil || s.prio[t.ID] > s.prio[best.ID] {
				best = t
			}
		}
		return best
	default:
		return runnable[s.schedRNG.IntN(len(runnable))]
	}
}

func (s *Sim) describeBlocked(blocked []*Task) string {
	var sb strings.Builder
	for _, t := range blocked {
		fmt.Fprintf(&sb, "%s@%s waits for %s; ", t.Name, t.site, describeObj(t.waitObj))
	}
	return sb.String()
}

// Owned is implemented by locks that know their owner (wait-for cycles).
type Owned interface{ SimOwner() *Task }

// lockCycle looks for a wait-for cycle (or a lock whose owner has finished)
// among the tasks that are parked on a false condition.
func (s *Sim) lockCycle(blocked []*Task) string {
	isBlocked := func(t *Task) bool { return contains(blocked, t) && t.delay <= s.steps }
	for _, t := range blocked {
		if t.delay > s.steps {
			continue
		}
		cur := t
		chain := []string{}
		for i := 0; i < len(blocked)+1; i++ {
			o, ok := cur.waitObj.(Owned)
			if !ok {
				break
			}
			owner := o.SimOwner()
			if owner == nil {
				break
			}
			chain = append(chain, fmt.Sprintf("%s@%s waits for %s", cur.Name, cur.site, describeObj(cur.waitObj)))
			if owner.state == Done {
				return "lock owner finished: " + strings.Join(chain, "; ")
			}
			if owner == t {
				return "lock cycle: " + strings.Join(chain, "; ")
			}
			if !isBlocked(owner) {
				break
			}
			cur = owner
		}
	}
	return ""
}

// Describer lets lock types name themselves in deadlock reports.
type Describer interface{ SimDescribe() string }

func describeObj(o any) string {
	if d, ok := o.(Describer); ok {
		return d.SimDescribe()
	}
	if o == nil {
		return "?"
	}
	return fmt.Sprintf("%T", o)
}

// Drain tears the run down: every workload task unwinds at its next wake-up,
// automatic tasks keep running but never wait for locks. final is run as a
// last task (closing engines, cancelling contexts) in permissive mode. It
// returns false if tasks are left that cannot be woken.
func (s *Sim) Drain(final func()) bool {
	s.drain = true
	if final != nil {
		s.goPermissive("teardown", final)
	}
	deadline := time.Now().Add(1000 * 24 * time.Hour)
	for i := 0; i < 200000; i++ {
		synctest.Wait()
		s.mu.Lock()
		var run *Task
		alive := 0
		ext := 0
		for _, t := range s.tasks {
			if t.state == Done {
				continue
			}
			alive++
			if t.state == Parked {
				if run == nil || t.ID < run.ID {
					run = t
				}
			} else {
				ext++
			}
		}
		if run != nil {
			if !run.Auto && !run.perm {
				run.kill = true
				run.killMsg = "drain"
			}
			run.state = Running
		}
		s.mu.Unlock()
		if alive == 0 {
			return true
		}
		if run != nil {
			run.wake <- struct{}{}
			continue
		}
		if alive == ext {
			// only externally blocked tasks are left: automatic ones may simply have exited
			s.ReapAuto()
			s.mu.Lock()
			left := 0
			for _, t := range s.tasks {
				if t.state != Done {
					left++
				}
			}
			s.mu.Unlock()
			if left == 0 {
				return true
			}
		}
		if time.Now().After(deadline) {
			return false
		}
		select {
		case <-s.notify:
		case <-time.After(24 * time.Hour):
		}
	}
	return false
}
