package model

import (
	"math"
	"strings"
	"time"

	"go.mongodb.org/mongo-driver/bson"
	"go.mongodb.org/mongo-driver/bson/primitive"
)

// put sets the value at path, creating embedded documents on the way. Through
// arrays only numeric segments are allowed.
func put(v any, parts []string, val any) (any, error) {
	if len(parts) == 0 {
		return val, nil
	}
	p := parts[0]
	switch x := v.(type) {
	case missingT:
		inner, err := put(Missing, parts[1:], val)
		if err != nil {
			return nil, err
		}
		return D{{Key: p, Value: inner}}, nil
	case D:
		for i, e := range x {
			if e.Key == p {
				inner, err := put(e.Value, parts[1:], val)
				if err != nil {
					return nil, err
				}
				x[i].Value = inner
				return x, nil
			}
		}
		inner, err := put(Missing, parts[1:], val)
		if err != nil {
			return nil, err
		}
		return append(x, bson.E{Key: p, Value: inner}), nil
	case A:
		i, ok := isIndex(p)
		if !ok {
			return nil, bad("cannot create field %q in an array", p)
		}
		existed := i < len(x)
		for len(x) <= i {
			x = append(x, nil)
		}
		// an element that exists (also a null one) is descended into - a field cannot be created in a null -
		// while an element created by padding is built from nothing
		cur := any(Missing)
		if existed || len(parts) == 1 {
			cur = x[i]
		}
		inner, err := put(cur, parts[1:], val)
		if err != nil {
			return nil, err
		}
		x[i] = inner
		return x, nil
	}
	return nil, bad("cannot create field %q in a scalar", p)
}

func unset(v any, parts []string) any {
	switch x := v.(type) {
	case D:
		for i, e := range x {
			if e.Key == parts[0] {
				if len(parts) == 1 {
					return append(x[:i:i], x[i+1:]...)
				}
				x[i].Value = unset(e.Value, parts[1:])
				return x
			}
		}
	case A:
		if i, ok := isIndex(parts[0]); ok && i < len(x) {
			if len(parts) == 1 {
				x[i] = nil
			} else {
				x[i] = unset(x[i], parts[1:])
			}
		}
	}
	return v
}

func arith(a, b any, mul bool) any {
	f := func(x, y float64) float64 {
		if mul {
			return x * y
		}
		return x + y
	}
	_, af := a.(float64)
	_, bf := b.(float64)
	if af || bf {
		return f(num(a), num(b))
	}
	_, a64 := a.(int64)
	_, b64 := b.(int64)
	var r int64
	if mul {
		r = toI64(a) * toI64(b)
	} else {
		r = toI64(a) + toI64(b)
	}
	if a64 || b64 || r > math.MaxInt32 || r < math.MinInt32 {
		return r
	}
	return int32(r)
}

func toI64(v any) int64 {
	switch x := v.(type) {
	case int32:
		return int64(x)
	case int64:
		return x
	}
	panic("model: not an integer")
}

func zeroLike(v any) any {
	switch v.(type) {
	case int32:
		return int32(0)
	case int64:
		return int64(0)
	}
	return float64(0)
}

type applyCtx struct {
	paths  []string
	upsert bool
	now    time.Time
}

func (c *applyCtx) claim(path string) error {
	for _, p := range c.paths {
		if p == path || strings.HasPrefix(p, path+".") || strings.HasPrefix(path, p+".") {
			return bad("conflicting paths %q and %q", p, path)
		}
	}
	c.paths = append(c.paths, path)
	return nil
}

// Apply applies an update document to a copy of doc and returns the result.
// now is the value $currentDate writes.
func Apply(doc D, update D, upsert bool, now time.Time) (D, error) {
	if len(update) == 0 {
		return nil, bad("empty update")
	}
	out := CloneD(doc)
	ctx := &applyCtx{upsert: upsert, now: now}
	for _, op := range update {
		if !strings.HasPrefix(op.Key, "$") {
			return nil, bad("update field %q is not an operator", op.Key)
		}
		args, ok := op.Value.(D)
		if !ok {
			return nil, bad("%s needs a document", op.Key)
		}
		for _, a := range args {
			res, err := applyOne(ctx, out, op.Key, a.Key, a.Value)
			if err != nil {
				return nil, err
			}
			out = res
		}
	}
	return out, nil
}

func applyOne(ctx *applyCtx, doc D, op, path string, arg any) (D, error) {
	if path == "" {
		return nil, bad("empty path")
	}
	parts := strings.Split(path, ".")
	set := func(val any) (D, error) {
		res, err := put(doc, parts, Clone(val))
		if err != nil {
			return nil, err
		}
		return res.(D), nil
	}
	cur := Get(doc, path)
	if op == "$setOnInsert" && !ctx.upsert {
		return doc, nil
	}
	if op != "$rename" {
		if err := ctx.claim(path); err != nil {
			return nil, err
		}
	}
	switch op {
	case "$set", "$setOnInsert":
		return set(arg)
	case "$unset":
		return unset(doc, parts).(D), nil
	case "$inc", "$mul":
		if class(arg) != 2 {
			return nil, bad("%s needs a number", op)
		}
		if cur == Missing {
			if op == "$inc" {
				return set(arg)
			}
			return set(zeroLike(arg))
		}
		if class(cur) != 2 {
			return nil, bad("%s on a non-number", op)
		}
		return set(arith(cur, arg, op == "$mul"))
	case "$min", "$max":
		if cur == Missing {
			return set(arg)
		}
		c := Compare(arg, cur)
		if (op == "$min" && c < 0) || (op == "$max" && c > 0) {
			return set(arg)
		}
		return doc, nil
	case "$currentDate":
		switch spec := arg.(type) {
		case bool:
		case D:
			if len(spec) != 1 || spec[0].Key != "$type" || spec[0].Value != "date" {
				return nil, bad("$currentDate: unsupported type spec")
			}
		default:
			return nil, bad("$currentDate: bad argument")
		}
		return set(primitive.NewDateTimeFromTime(ctx.now))
	case "$push", "$addToSet":
		items := []any{arg}
		if d, ok := arg.(D); ok && len(d) > 0 && d[0].Key == "$each" {
			if len(d) != 1 {
				return nil, bad("%s: modifiers outside the domain", op)
			}
			arr, ok := d[0].Value.(A)
			if !ok {
				return nil, bad("$each needs an array")
			}
			items = arr
		}
		var arr A
		switch x := cur.(type) {
		case missingT:
		case A:
			arr = append(A{}, x...)
		default:
			return nil, bad("%s on a non-array", op)
		}
		for _, it := range items {
			if op == "$addToSet" {
				dup := false
				for _, e := range arr {
					if Equal(e, it) {
						dup = true
					}
				}
				if dup {
					continue
				}
			}
			arr = append(arr, Clone(it))
		}
		if arr == nil {
			arr = A{}
		}
		return set(arr)
	case "$pop":
		n, ok := toInt(arg)
		if !ok || (n != 1 && n != -1) {
			return nil, bad("$pop needs 1 or -1")
		}
		switch x := cur.(type) {
		case missingT:
			return doc, nil
		case A:
			if len(x) == 0 {
				return doc, nil
			}
			if n == 1 {
				return set(append(A{}, x[:len(x)-1]...))
			}
			return set(append(A{}, x[1:]...))
		}
		return nil, bad("$pop on a non-array")
	case "$pull":
		switch x := cur.(type) {
		case missingT:
			return doc, nil
		case A:
			out := A{}
			for _, e := range x {
				var m bool
				if isOperatorDoc(arg) {
					ev := []any{e}
					var err error
					m, err = matchOps(ev, ev, true, arg.(D))
					if err != nil {
						return nil, err
					}
				} else if cd, isDoc := arg.(D); isDoc {
					if ed, ok := e.(D); ok {
						var err error
						m, err = Match(ed, cd)
						if err != nil {
							return nil, err
						}
					}
				} else {
					m = Equal(e, arg)
				}
				if !m {
					out = append(out, e)
				}
			}
			return set(out)
		}
		return nil, bad("$pull on a non-array")
	case "$rename":
		to, ok := arg.(string)
		if !ok || to == "" || to == path {
			return nil, bad("$rename needs a different target name")
		}
		if err := ctx.claim(path); err != nil {
			return nil, err
		}
		if err := ctx.claim(to); err != nil {
			return nil, err
		}
		if cur == Missing {
			return doc, nil
		}
		// the value is set at the target (an existing target field keeps its position, as with $set), then the
		// source is removed
		res, err := put(doc, strings.Split(to, "."), cur)
		if err == nil {
			res = unset(res, parts)
		}
		if err != nil {
			return nil, err
		}
		return res.(D), nil
	}
	return nil, bad("unknown update operator %s", op)
}

// Seed extracts the upsert seed document from a filter: equality conditions
// (implicit, $eq, single-element $in), recursively through $and and
// single-branch $or.
func Seed(filter D) (D, error) {
	out := D{}
	var walk func(f D) error
	walk = func(f D) error {
		for _, e := range f {
			switch {
			case e.Key == "$and" || e.Key == "$or":
				arr, ok := e.Value.(A)
				if !ok || len(arr) == 0 {
					return bad("%s needs an array", e.Key)
				}
				if e.Key == "$or" && len(arr) > 1 {
					continue
				}
				for _, s := range arr {
					sd, ok := s.(D)
					if !ok {
						return bad("%s needs documents", e.Key)
					}
					if err := walk(sd); err != nil {
						return err
					}
				}
			case strings.HasPrefix(e.Key, "$"):
				continue
			default:
				val, use := e.Value, true
				if isOperatorDoc(e.Value) {
					use = false
					for _, o := range e.Value.(D) {
						if o.Key == "$eq" {
							val, use = o.Value, true
						} else if o.Key == "$in" {
							if arr, ok := o.Value.(A); ok && len(arr) == 1 {
								val, use = arr[0], true
							}
						}
					}
				}
				if use {
					res, err := put(out, strings.Split(e.Key, "."), Clone(val))
					if err != nil {
						return err
					}
					out = res.(D)
				}
			}
		}
		return nil
	}
	if err := walk(filter); err != nil {
		return nil, err
	}
	return out, nil
}

// SetPath applies a $set of one dotted path (MongoDB semantics: missing
// parents become embedded documents, numeric segments index existing arrays).
func SetPath(doc D, path string, val any) (D, error) {
	res, err := put(CloneD(doc), strings.Split(path, "."), Clone(val))
	if err != nil {
		return nil, err
	}
	return res.(D), nil
}

// UnsetPath applies a $unset of one dotted path.
func UnsetPath(doc D, path string) D {
	return unset(CloneD(doc), strings.Split(path, ".")).(D)
}

// Canon returns a copy with the keys of all (embedded) documents sorted:
// equality "up to field order".
func Canon(v any) any {
	switch x := v.(type) {
	case D:
		out := make(D, len(x))
		for i, e := range x {
			out[i] = bson.E{Key: e.Key, Value: Canon(e.Value)}
		}
		sortD(out)
		return out
	case A:
		out := make(A, len(x))
		for i, e := range x {
			out[i] = Canon(e)
		}
		return out
	}
	return v
}

func sortD(d D) {
	for i := 1; i < len(d); i++ {
		for j := i; j > 0 && d[j-1].Key > d[j].Key; j-- {
			d[j-1], d[j] = d[j], d[j-1]
		}
	}
}
