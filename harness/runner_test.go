package harness

import (
	"encoding/json"
	"fmt"
	"os"
	"path/filepath"
	"sort"
	"strconv"
	"strings"
	"testing"
	"time"
)

// WorkerResult is what one worker process reports.
type WorkerResult struct {
	Prop         string         `json:"property"`
	Worker       int            `json:"worker"`
	Runs         int            `json:"runs"`
	Nontrivial   int            `json:"nontrivial"`
	Steps        int64          `json:"steps"`
	ChoicePoints int64          `json:"choice_points"`
	SimNanos     int64          `json:"sim_nanos"`
	Commits      int64          `json:"commits"`
	Faults       map[string]int `json:"faults"`
	Probes       map[string]int `json:"probes"`
	TraceHashes  []uint64       `json:"trace_hashes"`
	HBHashes     []uint64       `json:"hb_hashes"`
	StateHashes  []uint64       `json:"state_hashes"`
	Foreign      map[string]int `json:"foreign"`
	Known        map[string]int `json:"known"`
	KnownDetail  map[string]string `json:"known_detail"`
	Unseeded     int            `json:"unseeded"`
	Harness      []string       `json:"harness_faults"`
	Violation    *Violation     `json:"violation,omitempty"`
	Replay       string         `json:"replay,omitempty"`
	Samples      []any          `json:"samples"`
	WallS        float64        `json:"wall_s"`
	ShrinkRuns   int            `json:"shrink_runs,omitempty"`
}

const hashCap = 150000

type hashSet struct {
	m map[uint64]struct{}
}

func (h *hashSet) add(v uint64) {
	if h.m == nil {
		h.m = map[uint64]struct{}{}
	}
	if len(h.m) < hashCap {
		h.m[v] = struct{}{}
	}
}

func (h *hashSet) list() []uint64 {
	out := make([]uint64, 0, len(h.m))
	for k := range h.m {
		out = append(out, k)
	}
	sort.Slice(out, func(i, j int) bool { return out[i] < out[j] })
	return out
}

func envInt(name string, def int) int {
	if v := os.Getenv(name); v != "" {
		n, err := strconv.Atoi(v)
		if err == nil {
			return n
		}
	}
	return def
}

// ReplayFile is the on-disk format of a violation replay.
type ReplayFile struct {
	Property  string   `json:"property"`
	Signature string   `json:"signature"`
	Detail    string   `json:"detail"`
	Seed      uint64   `json:"batch_seed"`
	Run       int      `json:"run"`
	Minimised bool     `json:"minimised"`
	Plan      *Plan    `json:"plan"`
	Log       []string `json:"log"`
}

// TestSim is the worker entry point; everything is driven by the environment.
func TestSim(t *testing.T) {
	propID := os.Getenv("VERIF_PROP")
	if propID == "" {
		t.Skip("VERIF_PROP not set")
	}
	prop := registry[propID]
	if prop == nil {
		fmt.Printf("HARNESS-FAULT unknown property %s\n", propID)
		os.Exit(2)
	}
	if path := os.Getenv("VERIF_REPLAY"); path != "" {
		os.Exit(replay(t, prop, path))
	}
	tier := os.Getenv("VERIF_TIER")
	if tier == "" {
		tier = "quick"
	}
	seed, _ := strconv.ParseUint(os.Getenv("VERIF_SEED"), 10, 64)
	worker := envInt("VERIF_WORKER", 0)
	workers := envInt("VERIF_WORKERS", 1)
	budget := time.Duration(envInt("VERIF_BUDGET_S", 20)) * time.Second
	maxRuns := envInt("VERIF_MAXRUNS", 1<<30)
	outPath := os.Getenv("VERIF_OUT")
	replayDir := os.Getenv("VERIF_REPLAY_DIR")
	if replayDir == "" {
		replayDir = "/verif/replays"
	}
	known := map[string]bool{}
	for _, s := range strings.Split(os.Getenv("VERIF_KNOWN"), ";") {
		if s != "" {
			known[s] = true
		}
	}
	dumpLogs := os.Getenv("VERIF_DUMP") != ""
	detLog := os.Getenv("VERIF_DETLOG") != ""

	res := &WorkerResult{Prop: propID, Worker: worker, Faults: map[string]int{}, Probes: map[string]int{}, Foreign: map[string]int{}, Known: map[string]int{}, KnownDetail: map[string]string{}}
	var traces, hbs, states hashSet
	start := time.Now()
	write := func() {
		res.WallS = time.Since(start).Seconds()
		res.TraceHashes, res.HBHashes, res.StateHashes = traces.list(), hbs.list(), states.list()
		if outPath != "" {
			b, _ := json.Marshal(res)
			if err := os.WriteFile(outPath, b, 0644); err != nil {
				fmt.Printf("HARNESS-FAULT cannot write %s: %v\n", outPath, err)
				os.Exit(2)
			}
		}
	}

	account := func(plan *Plan, out *Outcome) {
		res.Runs++
		if out.Nontrivial {
			res.Nontrivial++
		}
		res.Steps += int64(out.Steps)
		res.ChoicePoints += int64(out.ChoicePoints)
		res.SimNanos += out.SimNanos
		res.Commits += int64(out.Commits)
		res.Unseeded += out.Unseeded
		for k, v := range out.Faults {
			res.Faults[k] += v
		}
		for k, v := range out.Probes {
			res.Probes[k] += v
		}
		for _, f := range out.Foreign {
			res.Foreign[f.Signature]++
		}
		if out.Nontrivial {
			traces.add(hash64(out.TraceHash, out.LogHash))
		}
		hbs.add(out.HBHash)
		states.add(out.StateHash)
		if len(res.Samples) < 3 && out.Nontrivial && (res.Runs%7 == 1 || len(res.Samples) == 0) {
			log := out.Log
			if len(log) > 60 {
				log = log[:60]
			}
			res.Samples = append(res.Samples, map[string]any{"plan": plan, "log": log, "steps": out.Steps, "commits": out.Commits})
		}
	}

	// handle returns true if the worker must stop.
	handle := func(plan *Plan, out *Outcome) bool {
		if dumpLogs {
			fmt.Printf("--- run %d seed %d\n%s\n", plan.Run, plan.Seed, strings.Join(out.Log, "\n"))
			if len(out.Trace) > 0 {
				fmt.Printf("--- trace run %d: %s\n", plan.Run, strings.Join(out.Trace, " "))
			}
		}
		if out.Harness != "" {
			res.Harness = append(res.Harness, fmt.Sprintf("run %d: %s", plan.Run, out.Harness))
			fmt.Printf("HARNESS-FAULT property=%s run=%d %s\n", propID, plan.Run, out.Harness)
			if len(res.Harness) > 3 || strings.HasPrefix(out.Harness, "teardown") {
				write()
				os.Exit(3)
			}
			return false
		}
		account(plan, out)
		if detLog {
			sig := ""
			if out.Violation != nil {
				sig = out.Violation.Signature
			}
			fmt.Printf("DET run=%d trace=%x log=%x state=%x steps=%d sim=%d commits=%d v=%s\n", plan.Run, out.TraceHash, out.LogHash, out.StateHash, out.Steps, out.SimNanos, out.Commits, sig)
		}
		v := out.Violation
		if v == nil {
			return false
		}
		if known[v.Signature] {
			res.Known[v.Signature]++
			if res.KnownDetail[v.Signature] == "" {
				res.KnownDetail[v.Signature] = v.Detail
			}
			return false
		}
		// confirm with the recorded schedule
		fmt.Printf("worker %d: run %d violates %s: %s\n", worker, plan.Run, v.Signature, v.Detail)
		orig := plan.Clone()
		orig.Schedule = out.Schedule
		rf := &ReplayFile{Property: propID, Signature: v.Signature, Detail: v.Detail, Seed: seed, Run: plan.Run, Plan: orig, Log: out.Log}
		again := prop.Exec(t, orig.Clone())
		if again.Violation == nil || again.Violation.Signature != v.Signature {
			// one retry: the only unseeded choice is which ready select case fires (DESIGN 3.6)
			again = prop.Exec(t, orig.Clone())
		}
		if again.Violation == nil || again.Violation.Signature != v.Signature {
			got := "none"
			if again.Violation != nil {
				got = again.Violation.Signature
			}
			fmt.Printf("HARNESS-FAULT property=%s run=%d violation %s did not reproduce with its recorded schedule (got %s)\n", propID, plan.Run, v.Signature, got)
			res.Harness = append(res.Harness, "non-reproducible violation "+v.Signature)
			write()
			os.Exit(2)
		}
		min, n := shrink(t, prop, orig, v.Signature, 40*time.Second)
		res.ShrinkRuns = n
		final := prop.Exec(t, min.Clone())
		if final.Violation != nil && final.Violation.Signature == v.Signature {
			rf.Plan, rf.Minimised, rf.Log, rf.Detail = min, true, final.Log, final.Violation.Detail
		}
		os.MkdirAll(replayDir, 0755)
		path := filepath.Join(replayDir, fmt.Sprintf("%s-%d-%d.json", propID, seed, plan.Run))
		b, _ := json.MarshalIndent(rf, "", " ")
		if err := os.WriteFile(path, b, 0644); err != nil {
			fmt.Printf("HARNESS-FAULT cannot write replay: %v\n", err)
			os.Exit(2)
		}
		res.Violation, res.Replay = v, path
		return true
	}

	stop := false
	// fault enumeration part (thorough tier, properties that define a sweep)
	if prop.Sweep != nil && maxRuns == 1<<30 {
		// (a bounded batch, as used by the determinism self-test, has no time-bounded part)
		sweepBudget := budget / 2
		if tier == "quick" {
			sweepBudget = budget / 3
		}
		for i := worker; !stop && time.Since(start) < sweepBudget; i += workers {
			base := prop.Gen(runSeed(seed, propID+"/sweep", i), i, tier)
			for _, p := range prop.Sweep(t, base) {
				if time.Since(start) > sweepBudget+sweepBudget/2 {
					res.Probes["sweep-truncated"]++
					break
				}
				out := prop.Exec(t, p)
				if stop = handle(p, out); stop {
					break
				}
			}
			res.Probes["sweep-histories"]++
		}
	}
	for i := worker; !stop && i < maxRuns && time.Since(start) < budget; i += workers {
		plan := prop.Gen(runSeed(seed, propID, i), i, tier)
		out := prop.Exec(t, plan)
		stop = handle(plan, out)
	}
	write()
}

// replay executes a replay file and reports whether the violation reappears.
func replay(t *testing.T, prop *Property, path string) int {
	b, err := os.ReadFile(path)
	if err != nil {
		fmt.Printf("cannot read %s: %v\n", path, err)
		return 2
	}
	var rf ReplayFile
	if err := json.Unmarshal(b, &rf); err != nil {
		fmt.Printf("cannot parse %s: %v\n", path, err)
		return 2
	}
	for attempt := 0; attempt < 2; attempt++ {
		out := prop.Exec(t, rf.Plan.Clone())
		for _, l := range out.Log {
			fmt.Println(l)
		}
		if out.Harness != "" {
			fmt.Printf("HARNESS-FAULT %s\n", out.Harness)
			return 2
		}
		if out.Violation != nil && out.Violation.Signature == rf.Signature {
			fmt.Printf("VIOLATION property=%s replay=%s\n", rf.Property, path)
			fmt.Printf("reproduced %s: %s\n", out.Violation.Signature, out.Violation.Detail)
			return 1
		}
		if out.Violation != nil {
			fmt.Printf("different violation: %s: %s\n", out.Violation.Signature, out.Violation.Detail)
		}
	}
	fmt.Printf("replay of %s: violation %s did not reappear\n", path, rf.Signature)
	return 0
}

// shrink minimises a failing plan by delta debugging over its explicit
// structure while the same violation signature persists.
func shrink(t *testing.T, prop *Property, plan *Plan, sig string, limit time.Duration) (*Plan, int) {
	deadline := time.Now().Add(limit)
	runs := 0
	try := func(c *Plan) (*Plan, bool) {
		if time.Now().After(deadline) {
			return nil, false
		}
		runs++
		out := prop.Exec(t, c.Clone())
		if out.Harness == "" && out.Violation != nil && out.Violation.Signature == sig {
			c.Schedule = out.Schedule
			return c, true
		}
		return nil, false
	}
	cur := plan
	changed := true
	for changed && time.Now().Before(deadline) {
		changed = false
		// drop faults
		for i := len(cur.Faults) - 1; i >= 0; i-- {
			c := cur.Clone()
			c.Faults = append(c.Faults[:i], c.Faults[i+1:]...)
			if n, ok := try(c); ok {
				cur, changed = n, true
			}
		}
		// drop whole tasks (keep their index positions: empty the script)
		for i := len(cur.Tasks) - 1; i >= 0; i-- {
			if len(cur.Tasks[i].Ops) == 0 {
				continue
			}
			c := cur.Clone()
			c.Tasks[i].Ops = nil
			if n, ok := try(c); ok {
				cur, changed = n, true
			}
		}
		// drop single operations, last first
		for ti := len(cur.Tasks) - 1; ti >= 0; ti-- {
			for oi := len(cur.Tasks[ti].Ops) - 1; oi >= 0; oi-- {
				if oi >= len(cur.Tasks[ti].Ops) {
					continue
				}
				c := cur.Clone()
				ops := c.Tasks[ti].Ops
				c.Tasks[ti].Ops = append(ops[:oi], ops[oi+1:]...)
				if n, ok := try(c); ok {
					cur, changed = n, true
					continue
				}
				// nested operations
				for si := len(cur.Tasks[ti].Ops[oi].Sub) - 1; si >= 0; si-- {
					c := cur.Clone()
					sub := c.Tasks[ti].Ops[oi].Sub
					c.Tasks[ti].Ops[oi].Sub = append(sub[:si], sub[si+1:]...)
					if n, ok := try(c); ok {
						cur, changed = n, true
					}
				}
				for si := len(cur.Tasks[ti].Ops[oi].Items) - 1; si >= 0; si-- {
					if len(cur.Tasks[ti].Ops[oi].Items) <= 1 {
						break
					}
					c := cur.Clone()
					it := c.Tasks[ti].Ops[oi].Items
					c.Tasks[ti].Ops[oi].Items = append(it[:si], it[si+1:]...)
					if n, ok := try(c); ok {
						cur, changed = n, true
					}
				}
				for si := len(cur.Tasks[ti].Ops[oi].Docs) - 1; si >= 0; si-- {
					if len(cur.Tasks[ti].Ops[oi].Docs) <= 1 {
						break
					}
					c := cur.Clone()
					ds := c.Tasks[ti].Ops[oi].Docs
					c.Tasks[ti].Ops[oi].Docs = append(ds[:si], ds[si+1:]...)
					if n, ok := try(c); ok {
						cur, changed = n, true
					}
				}
			}
		}
	}
	// simplify the schedule: prefer the sequential strategy if it still fails
	for _, strat := range []string{"rr", "nonpreempt"} {
		if cur.Cfg.Strategy == strat {
			break
		}
		c := cur.Clone()
		c.Cfg.Strategy = strat
		c.Schedule = nil
		if n, ok := try(c); ok {
			cur = n
			break
		}
	}
	return cur, runs
}
