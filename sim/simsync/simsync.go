// Package simsync replaces package sync in the instrumented lungo module. The
// lock types fall through to the real primitives when no simulation is
// active; inside a simulation every Lock is a scheduling point and waiting is
// a conditional park the scheduler understands (so a task may hold a lock
// across a blocking operation without hanging the synctest bubble).
package simsync

import (
	"fmt"
	"sync"

	"github.com/256dpi/lungo/verifsim/simrt"
)

// Aliases for everything that needs no scheduling.
type (
	Pool   = sync.Pool
	Map    = sync.Map
	Locker = sync.Locker
)

// OnceFunc, OnceValue and OnceValues are re-exported unchanged.
func OnceFunc(f func()) func() { return sync.OnceFunc(f) }

// OnceValue is re-exported unchanged.
func OnceValue[T any](f func() T) func() T { return sync.OnceValue(f) }

// OnceValues is re-exported unchanged.
func OnceValues[T1, T2 any](f func() (T1, T2)) func() (T1, T2) { return sync.OnceValues(f) }

// Observer is told about lock acquisitions (happens-before fingerprints).
var Observer func(kind string, m any, task *simrt.Task)

// Mutex replaces sync.Mutex.
type Mutex struct {
	real   sync.Mutex
	locked bool
	owner  *simrt.Task
	Label  string
}

// SimDescribe names the lock and its owner.
func (m *Mutex) SimDescribe() string {
	o := "nobody"
	if m.owner != nil {
		o = m.owner.Name
	}
	return fmt.Sprintf("mutex %p held by %s", m, o)
}

// SimOwner returns the task holding the lock.
func (m *Mutex) SimOwner() *simrt.Task { return m.owner }

// Lock locks m.
func (m *Mutex) Lock() {
	s := simrt.Active()
	if s == nil {
		m.real.Lock()
		return
	}
	if s.Draining() {
		m.locked = true
		return
	}
	s.Park("lock", nil, nil)
	for m.locked {
		if s.Draining() {
			break
		}
		s.Park("lockwait", func() bool { return !m.locked }, m)
	}
	m.locked = true
	m.owner = s.Current()
	if Observer != nil {
		Observer("lock", m, m.owner)
	}
}

// TryLock tries to lock m.
func (m *Mutex) TryLock() bool {
	s := simrt.Active()
	if s == nil {
		return m.real.TryLock()
	}
	if m.locked {
		return false
	}
	m.locked = true
	m.owner = s.Current()
	return true
}

// Unlock unlocks m.
func (m *Mutex) Unlock() {
	s := simrt.Active()
	if s == nil {
		m.real.Unlock()
		return
	}
	if !m.locked && !s.Draining() && !s.Unwinding() {
		panic("sync: unlock of unlocked mutex")
	}
	m.locked = false
	m.owner = nil
}

// RWMutex replaces sync.RWMutex. No admission policy is modelled: the
// scheduler may admit readers and writers in any order the documentation of
// sync.RWMutex allows.
type RWMutex struct {
	real    sync.RWMutex
	writer  bool
	readers int
	owner   *simrt.Task
}

// SimDescribe names the lock.
func (m *RWMutex) SimDescribe() string {
	o := "nobody"
	if m.owner != nil {
		o = m.owner.Name
	}
	return fmt.Sprintf("rwmutex %p writer=%v(%s) readers=%d", m, m.writer, o, m.readers)
}

// SimOwner returns the task holding the write lock.
func (m *RWMutex) SimOwner() *simrt.Task { return m.owner }

// Lock takes the write lock.
func (m *RWMutex) Lock() {
	s := simrt.Active()
	if s == nil {
		m.real.Lock()
		return
	}
	if s.Draining() {
		m.writer = true
		return
	}
	s.Park("wlock", nil, nil)
	for m.writer || m.readers > 0 {
		if s.Draining() {
			break
		}
		s.Park("wlockwait", func() bool { return !m.writer && m.readers == 0 }, m)
	}
	m.writer = true
	m.owner = s.Current()
}

// Unlock releases the write lock.
func (m *RWMutex) Unlock() {
	s := simrt.Active()
	if s == nil {
		m.real.Unlock()
		return
	}
	if !m.writer && !s.Draining() && !s.Unwinding() {
		panic("sync: Unlock of unlocked RWMutex")
	}
	m.writer = false
	m.owner = nil
}

// RLock takes a read lock.
func (m *RWMutex) RLock() {
	s := simrt.Active()
	if s == nil {
		m.real.RLock()
		return
	}
	if s.Draining() {
		m.readers++
		return
	}
	s.Park("rlock", nil, nil)
	for m.writer {
		if s.Draining() {
			break
		}
		s.Park("rlockwait", func() bool { return !m.writer }, m)
	}
	m.readers++
}

// RUnlock releases a read lock.
func (m *RWMutex) RUnlock() {
	s := simrt.Active()
	if s == nil {
		m.real.RUnlock()
		return
	}
	if m.readers <= 0 {
		if s.Draining() || s.Unwinding() {
			return
		}
		panic("sync: RUnlock of unlocked RWMutex")
	}
	m.readers--
}

// TryLock tries to take the write lock.
func (m *RWMutex) TryLock() bool {
	s := simrt.Active()
	if s == nil {
		return m.real.TryLock()
	}
	if m.writer || m.readers > 0 {
		return false
	}
	m.writer = true
	m.owner = s.Current()
	return true
}

// TryRLock tries to take a read lock.
func (m *RWMutex) TryRLock() bool {
	s := simrt.Active()
	if s == nil {
		return m.real.TryRLock()
	}
	if m.writer {
		return false
	}
	m.readers++
	return true
}

// RLocker returns a Locker for the read side.
func (m *RWMutex) RLocker() Locker { return (*rlocker)(m) }

type rlocker RWMutex

func (r *rlocker) Lock()   { (*RWMutex)(r).RLock() }
func (r *rlocker) Unlock() { (*RWMutex)(r).RUnlock() }

// WaitGroup replaces sync.WaitGroup.
type WaitGroup struct {
	real sync.WaitGroup
	n    int
}

// Add adds delta.
func (w *WaitGroup) Add(delta int) {
	if simrt.Active() == nil {
		w.real.Add(delta)
		return
	}
	w.n += delta
	if w.n < 0 {
		panic("sync: negative WaitGroup counter")
	}
}

// Done decrements the counter.
func (w *WaitGroup) Done() { w.Add(-1) }

// Go runs f in a new goroutine counted by the group.
func (w *WaitGroup) Go(f func()) {
	w.Add(1)
	go func() {
		defer w.Done()
		f()
	}()
}

// Wait waits for the counter to reach zero.
func (w *WaitGroup) Wait() {
	s := simrt.Active()
	if s == nil {
		w.real.Wait()
		return
	}
	s.Park("wgwait", nil, nil)
	for w.n > 0 {
		if s.Draining() {
			return
		}
		s.Park("wgwait", func() bool { return w.n == 0 }, w)
	}
}

// Once replaces sync.Once.
type Once struct {
	m    Mutex
	done bool
}

// Do calls f once.
func (o *Once) Do(f func()) {
	o.m.Lock()
	defer o.m.Unlock()
	if !o.done {
		defer func() { o.done = true }()
		f()
	}
}

// Cond replaces sync.Cond.
type Cond struct {
	L       Locker
	real    *sync.Cond
	waiters []*condWaiter
}

type condWaiter struct{ signalled bool }

// NewCond returns a new Cond.
func NewCond(l Locker) *Cond { return &Cond{L: l, real: sync.NewCond(l)} }

// Wait waits for a signal.
func (c *Cond) Wait() {
	s := simrt.Active()
	if s == nil {
		c.real.Wait()
		return
	}
	w := &condWaiter{}
	c.waiters = append(c.waiters, w)
	c.L.Unlock()
	for !w.signalled {
		if s.Draining() {
			break
		}
		s.Park("condwait", func() bool { return w.signalled }, c)
	}
	c.L.Lock()
}

// Signal wakes one waiter.
func (c *Cond) Signal() {
	if simrt.Active() == nil {
		c.real.Signal()
		return
	}
	if len(c.waiters) > 0 {
		c.waiters[0].signalled = true
		c.waiters = c.waiters[1:]
	}
}

// Broadcast wakes all waiters.
func (c *Cond) Broadcast() {
	if simrt.Active() == nil {
		c.real.Broadcast()
		return
	}
	for _, w := range c.waiters {
		w.signalled = true
	}
	c.waiters = nil
}
