package harness

import (
	"bytes"
	"context"
	"errors"
	"fmt"
	"io"
	"testing"
	"time"

	"github.com/256dpi/lungo"
	"github.com/256dpi/lungo/verifsim/simrt"
	"go.mongodb.org/mongo-driver/mongo/gridfs"
	"go.mongodb.org/mongo-driver/mongo/options"
)

// C18, shared-stream variant: one UploadStream (or DownloadStream) object used by two goroutines. The streams
// carry a mutex, so each call is atomic; whatever the interleaving, the outcome is the one some order of the
// calls produces:
//   - upload: a writer issues Writes while a second task calls Close. Every Write that was acknowledged (n, nil)
//     is part of the file, in order; a Write that comes after the Close fails with ErrStreamClosed.
//   - download: a reader and a seeker work on one stream; the results of all calls and the bytes read to the end
//     afterwards equal those of some merge of the two call sequences on an in-memory reader.

func genC18Shared(seed uint64, run int) *Plan {
	r := newRNG(seed, 182)
	p := &Plan{Prop: "C18", Seed: seed, Run: run}
	p.Cfg = Cfg{Store: "mem", Strategy: pick(r, "random", "random", "pct", "sticky"), PCTDepth: 1 + r.IntN(3), ExpireMs: 60000, Variant: "sharedstream"}
	p.Cfg.Fine = pick(r, 0, 1, 1, 2)
	cs := pick(r, 2, 3, 5, 8)
	p.Cfg.BlockSize = cs
	switch r.IntN(5) {
	case 0:
		// (a Drop racing an upload is not a scenario: Drop removes two collections in two steps and the bucket
		// then skips index creation because files exist - the official driver's shortcut, too; nothing is claimed)
		// two uploads under one file name whose lifetimes overlap: revisions go by completion (uploadDate)
		p.Cfg.Variant = "byname"
		d1, d2 := int64(100+r.IntN(400)), int64(1+r.IntN(80))
		a := TaskPlan{Name: "first-opened", Role: "namer", Ops: []Op{{K: "gfs.open", N: 1}, {K: "gfs.write", N: pick(r, 1, cs, 2*cs+1)}, {K: "sleep", Ms: d1}, {K: "gfs.close"}}}
		b := TaskPlan{Name: "second-opened", Role: "namer", Ops: []Op{{K: "sleep", Ms: d2}, {K: "gfs.open", N: 2}, {K: "gfs.write", N: pick(r, 1, cs, cs+2)}, {K: "gfs.close"}}}
		if r.IntN(2) == 0 {
			// or the other way round: the later opener also closes later
			b.Ops = append(b.Ops[:3:3], Op{K: "sleep", Ms: d1 + 50}, Op{K: "gfs.close"})
		}
		p.Tasks = []TaskPlan{a, b}
		return p
	}
	if r.IntN(2) == 0 {
		// upload: writer + closer
		w := TaskPlan{Name: "writer", Role: "writer"}
		for n := 1 + r.IntN(4); n > 0; n-- {
			w.Ops = append(w.Ops, Op{K: "gfs.write", N: pick(r, 1, cs-1, cs, cs+1, 2*cs+1)})
			if r.IntN(3) == 0 {
				w.Ops = append(w.Ops, Op{K: "yield"})
			}
		}
		c := TaskPlan{Name: "closer", Role: "closer"}
		for n := r.IntN(3); n > 0; n-- {
			c.Ops = append(c.Ops, Op{K: "yield"})
		}
		c.Ops = append(c.Ops, Op{K: "gfs.close"})
		p.Tasks = []TaskPlan{w, c}
		return p
	}
	// download: reader + seeker on a file of a few chunks
	length := pick(r, cs, 2*cs+1, 3*cs, 4*cs-1)
	p.Cfg.Dirs = length
	rd := TaskPlan{Name: "reader", Role: "reader"}
	for n := 1 + r.IntN(2); n > 0; n-- {
		rd.Ops = append(rd.Ops, Op{K: "read", N: pick(r, 1, cs-1, cs, cs+1, 2*cs)})
	}
	sk := TaskPlan{Name: "seeker", Role: "seeker"}
	for n := 1 + r.IntN(2); n > 0; n-- {
		switch r.IntN(3) {
		case 0:
			sk.Ops = append(sk.Ops, Op{K: "seek", N: pick(r, 1, cs, cs+1, 2), Skip: io.SeekCurrent})
		case 1:
			sk.Ops = append(sk.Ops, Op{K: "skip", N: pick(r, 1, cs, 2)})
		default:
			sk.Ops = append(sk.Ops, Op{K: "seek", N: r.IntN(length + 1), Skip: io.SeekStart})
		}
	}
	p.Tasks = []TaskPlan{rd, sk}
	return p
}

type sharedCall struct {
	op   Op
	n    int64
	err  error
	data []byte
}

// execC18Named runs the "byname" and "droprace" scenarios.
func execC18Named(t *testing.T, plan *Plan) *Outcome {
	return runPlan(t, plan, func(e *Env) {
		sim := e.sim
		cs := plan.Cfg.BlockSize
		var bucket *lungo.Bucket
		type upload struct {
			id       int
			n        int
			closedAt time.Duration
			closed   bool
			err      error
		}
		ups := map[int]*upload{}
		var order []*upload
		var dropErr error
		ok := false
		ctx := context.Background()
		sim.Go("setup", false, func(*simrt.Task) {
			if err := e.open(); err != nil {
				e.out.Harness = "open failed: " + err.Error()
				return
			}
			bucket = lungo.NewBucket(e.client.Database("db"), options.GridFSBucket().SetName("fs"))
			if plan.Cfg.Variant == "droprace" {
				// a stored file, so that the bucket has its indexes and something to drop
				s, err := bucket.OpenUploadStreamWithID(ctx, int32(1), "same", uploadOpts(cs))
				if err == nil {
					_, err = s.Write(gfsContent(1, 0, 2*cs))
				}
				if err == nil {
					err = s.Close()
				}
				if err != nil {
					e.out.Harness = "droprace setup failed: " + err.Error()
					return
				}
			}
			ok = true
			for _, tp := range plan.Tasks {
				tp := tp
				sim.Go(tp.Name, false, func(*simrt.Task) {
					var s *lungo.UploadStream
					var u *upload
					for _, op := range tp.Ops {
						simrt.Yield("op:next")
						switch op.K {
						case "sleep":
							time.Sleep(time.Duration(op.Ms) * time.Millisecond)
							simrt.Yield("gfs:wake")
						case "gfs.drop":
							dropErr = bucket.Drop(ctx)
							e.logf("[%s] drop -> %v", tp.Name, dropErr)
						case "gfs.open":
							u = &upload{id: op.N}
							ups[op.N] = u
							var err error
							s, err = bucket.OpenUploadStreamWithID(ctx, int32(op.N), "same", uploadOpts(cs))
							e.logf("[%s] open id=%d -> %v", tp.Name, op.N, err)
							if err != nil {
								u.err = err
								return
							}
						case "gfs.write":
							if s != nil {
								n, err := s.Write(gfsContent(u.id, u.n, op.N))
								if err != nil {
									u.err = err
									return
								}
								u.n += n
							}
						case "gfs.close":
							if s != nil {
								u.err = s.Close()
								e.logf("[%s] close id=%d (%d bytes) -> %v", tp.Name, u.id, u.n, u.err)
								if u.err == nil {
									u.closed, u.closedAt = true, sim.Elapsed()
									order = append(order, u)
								}
							}
						}
					}
				})
			}
		})
		sim.Run()
		if !ok || e.out.Harness != "" {
			return
		}
		e.out.Nontrivial = sim.ChoicePoints() > 0
		if sim.PanicVal != nil || sim.Deadlock != "" || sim.TimeOut || sim.StepsOut {
			e.violate(violation("C16", "deadlock", "stall", fmt.Sprintf("GridFS run did not finish: panic=%v %s %s", sim.PanicVal, sim.Deadlock, e.stallReport())))
			return
		}
		done := false
		sim.Go("judge", false, func(*simrt.Task) {
			defer func() { done = true }()
			read := func(s *lungo.DownloadStream, err error) ([]byte, error) {
				if err != nil {
					return nil, err
				}
				defer s.Close()
				return io.ReadAll(s)
			}
			if plan.Cfg.Variant == "byname" {
				for _, u := range ups {
					if u.err != nil {
						e.violate(violation("C18", "unexpected-error", "byname", fmt.Sprintf("upload %d under a shared file name failed: %v", u.id, u.err)))
						return
					}
				}
				if len(order) != 2 || order[0].closedAt == order[1].closedAt {
					return // (completed at the same instant: the order of revisions is not determined)
				}
				for _, x := range []struct {
					rev int32
					u   *upload
				}{{0, order[0]}, {-1, order[1]}, {1, order[1]}, {-2, order[0]}} {
					rev, u := x.rev, x.u // (a fixed order: the calls are scheduling points)
					got, err := read(bucket.OpenDownloadStreamByName(ctx, "same", options.GridFSName().SetRevision(rev)))
					if err != nil || !bytes.Equal(got, gfsContent(u.id, 0, u.n)) {
						e.violate(violation("C18", "download-bytes", "by-name", fmt.Sprintf("revision %d of a file name with two uploads (completed at %v and %v) should be upload %d (%d bytes); got %d bytes, err %v", rev, order[0].closedAt, order[1].closedAt, u.id, u.n, len(got), err)))
						return
					}
				}
				e.probe("by-name-revisions-checked")
				return
			}
		})
		sim.Run()
		if !done && !e.failed() {
			e.out.Harness = "GridFS judgement did not finish"
		}
	})
}

func execC18Shared(t *testing.T, plan *Plan) *Outcome {
	return runPlan(t, plan, func(e *Env) {
		sim := e.sim
		cs := plan.Cfg.BlockSize
		upload := plan.Tasks[0].Role == "writer"
		var up *lungo.UploadStream
		var down *lungo.DownloadStream
		var bucket *lungo.Bucket
		calls := make([][]sharedCall, len(plan.Tasks))
		ok := false
		sim.Go("setup", false, func(*simrt.Task) {
			if err := e.open(); err != nil {
				e.out.Harness = "open failed: " + err.Error()
				return
			}
			bucket = lungo.NewBucket(e.client.Database("db"), options.GridFSBucket().SetName("fs"))
			ctx := context.Background()
			var err error
			if upload {
				up, err = bucket.OpenUploadStreamWithID(ctx, int32(1), "f1", uploadOpts(cs))
			} else {
				var s *lungo.UploadStream
				s, err = bucket.OpenUploadStreamWithID(ctx, int32(1), "f1", uploadOpts(cs))
				if err == nil {
					_, err = s.Write(gfsContent(1, 0, plan.Cfg.Dirs))
				}
				if err == nil {
					err = s.Close()
				}
				if err == nil {
					down, err = bucket.OpenDownloadStream(ctx, int32(1))
				}
			}
			if err != nil {
				e.out.Harness = "shared-stream setup failed: " + err.Error()
				return
			}
			ok = true
			for ti := range plan.Tasks {
				ti := ti
				tp := plan.Tasks[ti]
				off := 0
				if ti == 0 && upload {
					// the writer's bytes continue where its last acknowledged write ended
					off = 0
				}
				sim.Go(tp.Name, false, func(*simrt.Task) {
					for _, op := range tp.Ops {
						simrt.Yield("op:next")
						c := sharedCall{op: op}
						switch op.K {
						case "yield":
							continue
						case "gfs.write":
							n, err := up.Write(gfsContent(1, off, op.N))
							c.n, c.err = int64(n), err
							if err == nil {
								off += n
							}
						case "gfs.close":
							c.err = up.Close()
						case "read":
							buf := make([]byte, op.N)
							n, err := down.Read(buf)
							c.n, c.err, c.data = int64(n), err, buf[:n]
						case "seek":
							c.n, c.err = down.Seek(int64(op.N), op.Skip)
						case "skip":
							c.n, c.err = down.Skip(int64(op.N))
						}
						e.logf("[%s] %s %d -> %d %v", tp.Name, op.K, op.N, c.n, c.err)
						calls[ti] = append(calls[ti], c)
					}
				})
			}
		})
		sim.Run()
		if !ok || e.out.Harness != "" {
			return
		}
		e.out.Nontrivial = sim.ChoicePoints() > 0
		if sim.PanicVal != nil {
			e.violate(violation("C18", "panic", "shared-stream", fmt.Sprintf("a task panicked: %v\n%s", sim.PanicVal, sim.PanicStack)))
			return
		}
		if sim.Deadlock != "" || sim.TimeOut || sim.StepsOut {
			e.violate(violation("C16", "deadlock", "stall", fmt.Sprintf("shared-stream run did not finish: %s %s", sim.Deadlock, e.stallReport())))
			return
		}
		done := false
		sim.Go("judge", false, func(*simrt.Task) {
			defer func() { done = true }()
			if upload {
				c18SharedUpload(e, bucket, cs, calls)
			} else {
				c18SharedDownload(e, down, plan.Cfg.Dirs, calls)
			}
		})
		sim.Run()
		if !done && !e.failed() {
			e.out.Harness = "shared-stream judgement did not finish"
		}
		e.probe("shared-stream-checked")
	})
}

func c18SharedUpload(e *Env, bucket *lungo.Bucket, cs int, calls [][]sharedCall) {
	acked := 0
	for _, c := range calls[0] {
		switch {
		case c.err == nil && int(c.n) == c.op.N:
			acked += c.op.N
		case errors.Is(c.err, gridfs.ErrStreamClosed) && c.n == 0:
		default:
			e.violate(violation("C18", "write-result", "shared-stream", fmt.Sprintf("Write of %d bytes on a stream another task closes returned (%d, %v)", c.op.N, c.n, c.err)))
			return
		}
	}
	for _, c := range calls[1] {
		if c.err != nil {
			e.violate(violation("C18", "unexpected-error", "shared-close", fmt.Sprintf("Close of the shared upload stream failed: %v", c.err)))
			return
		}
	}
	s, err := bucket.OpenDownloadStream(context.Background(), int32(1))
	if err != nil {
		e.violate(violation("C18", "unexpected-error", "openDownload", fmt.Sprintf("the file closed by the second task cannot be opened: %v", err)))
		return
	}
	defer s.Close()
	got, err := io.ReadAll(s)
	want := gfsContent(1, 0, acked)
	if err != nil || !bytes.Equal(got, want) {
		e.violate(violation("C18", "download-bytes", "acknowledged-writes", fmt.Sprintf("%d bytes were acknowledged by Write before the other task's Close, the file holds %d bytes (err %v, equal prefix: %v)", acked, len(got), err, bytes.HasPrefix(want, got))))
		return
	}
	if f := s.GetFile(); f == nil || f.Length != acked {
		e.violate(violation("C18", "file-record", "length", fmt.Sprintf("%d bytes were acknowledged, the file record states %+v", acked, f)))
	}
}

// c18SharedDownload: some merge of the two call sequences explains every result and the tail.
func c18SharedDownload(e *Env, down *lungo.DownloadStream, length int, calls [][]sharedCall) {
	tail, terr := io.ReadAll(down)
	content := gfsContent(1, 0, length)
	var try func(i, j int, ref *bytes.Reader) bool
	same := func(c sharedCall, ref *bytes.Reader) bool {
		switch c.op.K {
		case "read":
			buf := make([]byte, c.op.N)
			n, err := ref.Read(buf)
			return int64(n) == c.n && (err == io.EOF) == (c.err == io.EOF) && (c.err == nil || c.err == io.EOF) && bytes.Equal(buf[:n], c.data)
		case "seek":
			p, err := ref.Seek(int64(c.op.N), c.op.Skip)
			return (err != nil) == (c.err != nil) && (err != nil || p == c.n)
		default:
			p, err := ref.Seek(int64(c.op.N), io.SeekCurrent)
			return (err != nil) == (c.err != nil) && (err != nil || p == c.n)
		}
	}
	clone := func(ref *bytes.Reader) *bytes.Reader {
		pos, _ := ref.Seek(0, io.SeekCurrent)
		n := bytes.NewReader(content)
		n.Seek(pos, io.SeekStart)
		return n
	}
	try = func(i, j int, ref *bytes.Reader) bool {
		if i == len(calls[0]) && j == len(calls[1]) {
			rest, _ := io.ReadAll(ref)
			return terr == nil && bytes.Equal(rest, tail)
		}
		if i < len(calls[0]) {
			r2 := clone(ref)
			if same(calls[0][i], r2) && try(i+1, j, r2) {
				return true
			}
		}
		if j < len(calls[1]) {
			r2 := clone(ref)
			if same(calls[1][j], r2) && try(i, j+1, r2) {
				return true
			}
		}
		return false
	}
	if !try(0, 0, bytes.NewReader(content)) {
		desc := ""
		for ti := range calls {
			for _, c := range calls[ti] {
				desc += fmt.Sprintf(" %s(%d)->(%d,%v)", c.op.K, c.op.N, c.n, c.err)
			}
			desc += " |"
		}
		e.violate(violation("C18", "download-result", "shared-stream", fmt.Sprintf("no order of the reader's and the seeker's calls on one download stream (%d bytes) explains their results and the %d bytes read afterwards:%s", length, len(tail), desc)))
	}
}
