module verif

go 1.26.0

require (
	github.com/256dpi/lungo v0.0.0
	github.com/anishathalye/porcupine v1.3.0
	go.mongodb.org/mongo-driver v1.17.9
	golang.org/x/tools v0.50.0
)

require (
	golang.org/x/mod v0.41.0 // indirect
	golang.org/x/sync v0.23.0 // indirect
)

replace github.com/256dpi/lungo => /repo
