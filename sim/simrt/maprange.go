package simrt

import (
	"fmt"
	"iter"
	"reflect"
	"sort"
)

// MapRange replaces `range m` over a map in instrumented code. Outside a
// simulation it ranges natively. Inside, the keys are snapshotted, ordered
// canonically and permuted with the run's map PRNG stream; presence is
// re-checked before each key is yielded. This is a legal refinement of Go's
// map iteration semantics and makes iteration order a seeded, explored choice.
// Keys that cannot be ordered canonically (pointers, interfaces) range
// natively and are counted in Sim.NativeRanges.
func MapRange[M ~map[K]V, K comparable, V any](m M) iter.Seq2[K, V] {
	return func(yield func(K, V) bool) {
		s := active.Load()
		if s == nil || len(m) < 2 {
			for k, v := range m {
				if !yield(k, v) {
					return
				}
			}
			return
		}
		var zero K
		if !orderable(reflect.TypeOf(zero)) {
			if keys, ok := registered(s, m); ok {
				s.mapRNG.Shuffle(len(keys), func(i, j int) { keys[i], keys[j] = keys[j], keys[i] })
				for _, k := range keys {
					v, ok := m[k]
					if !ok {
						continue
					}
					if !yield(k, v) {
						return
					}
				}
				return
			}
			s.NativeRanges++
			for k, v := range m {
				if !yield(k, v) {
					return
				}
			}
			return
		}
		keys := make([]K, 0, len(m))
		for k := range m {
			keys = append(keys, k)
		}
		sort.Slice(keys, func(i, j int) bool { return keyLess(keys[i], keys[j]) })
		s.mapRNG.Shuffle(len(keys), func(i, j int) { keys[i], keys[j] = keys[j], keys[i] })
		for _, k := range keys {
			v, ok := m[k]
			if !ok {
				continue
			}
			if !yield(k, v) {
				return
			}
		}
	}
}

// registered returns the keys of m in registration order if every key has been
// registered with NoteKey.
func registered[M ~map[K]V, K comparable, V any](s *Sim, m M) ([]K, bool) {
	s.mu.Lock()
	defer s.mu.Unlock()
	if len(s.ptrIDs) == 0 {
		return nil, false
	}
	keys := make([]K, 0, len(m))
	for k := range m {
		if _, ok := s.ptrIDs[any(k)]; !ok {
			return nil, false
		}
		keys = append(keys, k)
	}
	sort.Slice(keys, func(i, j int) bool { return s.ptrIDs[any(keys[i])] < s.ptrIDs[any(keys[j])] })
	return keys, true
}

func orderable(t reflect.Type) bool {
	if t == nil {
		return false
	}
	switch t.Kind() {
	case reflect.String, reflect.Int, reflect.Int8, reflect.Int16, reflect.Int32, reflect.Int64,
		reflect.Uint, reflect.Uint8, reflect.Uint16, reflect.Uint32, reflect.Uint64, reflect.Bool,
		reflect.Float32, reflect.Float64:
		return true
	case reflect.Array:
		return orderable(t.Elem())
	case reflect.Struct:
		for i := 0; i < t.NumField(); i++ {
			if !orderable(t.Field(i).Type) {
				return false
			}
		}
		return true
	}
	return false
}

func keyLess(a, b any) bool {
	return fmt.Sprintf("%#v", a) < fmt.Sprintf("%#v", b)
}
