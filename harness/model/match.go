package model

import (
	"fmt"
	"strings"
)

// ErrBad is returned for malformed filters / updates (class "err").
type ErrBad struct{ Msg string }

func (e ErrBad) Error() string { return e.Msg }

func bad(f string, a ...any) error { return ErrBad{fmt.Sprintf(f, a...)} }

func isOperatorDoc(v any) bool {
	d, ok := v.(D)
	return ok && len(d) > 0 && strings.HasPrefix(d[0].Key, "$")
}

// Match evaluates a filter of the core query domain against a document.
func Match(doc D, filter D) (bool, error) {
	for _, e := range filter {
		var ok bool
		var err error
		switch e.Key {
		case "$and", "$or", "$nor":
			arr, isArr := e.Value.(A)
			if !isArr || len(arr) == 0 {
				return false, bad("%s needs a non-empty array", e.Key)
			}
			n := 0
			for _, sub := range arr {
				sd, isDoc := sub.(D)
				if !isDoc {
					return false, bad("%s needs documents", e.Key)
				}
				m, err := Match(doc, sd)
				if err != nil {
					return false, err
				}
				if m {
					n++
				}
			}
			switch e.Key {
			case "$and":
				ok = n == len(arr)
			case "$or":
				ok = n > 0
			default:
				ok = n == 0
			}
		default:
			if strings.HasPrefix(e.Key, "$") {
				return false, bad("unknown top level operator %s", e.Key)
			}
			ok, err = matchField(doc, e.Key, e.Value)
			if err != nil {
				return false, err
			}
		}
		if !ok {
			return false, nil
		}
	}
	return true, nil
}

func matchField(doc D, path string, cond any) (bool, error) {
	vals, exists := candidates(doc, path)
	ls := leaves(doc, strings.Split(path, "."))
	if isOperatorDoc(cond) {
		return matchOps(vals, ls, exists, cond.(D))
	}
	return eq(vals, exists, cond), nil
}

func eq(vals []any, exists bool, x any) bool {
	if class(x) == 1 && !exists {
		return true
	}
	for _, v := range vals {
		if Equal(v, x) {
			return true
		}
	}
	return false
}

func cmpAny(vals []any, x any, pred func(int) bool) bool {
	for _, v := range vals {
		if class(v) == class(x) && pred(Compare(v, x)) {
			return true
		}
	}
	return false
}

// matchOps evaluates an operator document against the candidate values of a path.
func matchOps(vals, ls []any, exists bool, ops D) (bool, error) {
	for _, op := range ops {
		var ok bool
		switch op.Key {
		case "$eq":
			ok = eq(vals, exists, op.Value)
		case "$ne":
			ok = !eq(vals, exists, op.Value)
		case "$gt":
			ok = cmpAny(vals, op.Value, func(c int) bool { return c > 0 })
		case "$gte":
			ok = cmpAny(vals, op.Value, func(c int) bool { return c >= 0 })
		case "$lt":
			ok = cmpAny(vals, op.Value, func(c int) bool { return c < 0 })
		case "$lte":
			ok = cmpAny(vals, op.Value, func(c int) bool { return c <= 0 })
		case "$in", "$nin":
			arr, isArr := op.Value.(A)
			if !isArr {
				return false, bad("%s needs an array", op.Key)
			}
			in := false
			for _, x := range arr {
				if eq(vals, exists, x) {
					in = true
				}
			}
			ok = in == (op.Key == "$in")
		case "$exists":
			want := truthy(op.Value)
			ok = exists == want
		case "$size":
			n, isNum := toInt(op.Value)
			if !isNum {
				return false, bad("$size needs a number")
			}
			for _, l := range ls {
				if a, isArr := l.(A); isArr && len(a) == n {
					ok = true
				}
			}
		case "$not":
			sub, isDoc := op.Value.(D)
			if !isDoc || !isOperatorDoc(sub) {
				return false, bad("$not needs an operator document")
			}
			m, err := matchOps(vals, ls, exists, sub)
			if err != nil {
				return false, err
			}
			ok = !m
		case "$elemMatch":
			sub, isDoc := op.Value.(D)
			if !isDoc {
				return false, bad("$elemMatch needs a document")
			}
			for _, l := range ls {
				a, isArr := l.(A)
				if !isArr {
					continue
				}
				for _, e := range a {
					var m bool
					var err error
					if isOperatorDoc(sub) {
						ev := []any{e}
						if ea, isA := e.(A); isA {
							ev = append(ev, ea...)
						}
						m, err = matchOps(ev, []any{e}, true, sub)
					} else if ed, isD := e.(D); isD {
						m, err = Match(ed, sub)
					}
					if err != nil {
						return false, err
					}
					if m {
						ok = true
					}
				}
			}
		default:
			return false, bad("unknown operator %s", op.Key)
		}
		if !ok {
			return false, nil
		}
	}
	return true, nil
}

func truthy(v any) bool {
	switch x := v.(type) {
	case bool:
		return x
	case int32, int64, float64:
		return num(x) != 0
	case nil:
		return false
	}
	return true
}

func toInt(v any) (int, bool) {
	switch x := v.(type) {
	case int32:
		return int(x), true
	case int64:
		return int(x), true
	case float64:
		if x == float64(int(x)) {
			return int(x), true
		}
	}
	return 0, false
}

// Filter returns the matching documents (indices into docs) in order.
func Filter(docs []D, filter D) ([]int, error) {
	var out []int
	for i, d := range docs {
		m, err := Match(d, filter)
		if err != nil {
			return nil, err
		}
		if m {
			out = append(out, i)
		}
	}
	return out, nil
}
