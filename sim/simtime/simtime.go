// Package simtime replaces package time in the instrumented lungo module.
// Timers, tickers and sleeps are the (synctest-faked) real ones; only the wall
// clock reading differs: Now adds the simulator-controlled offset, which models
// wall-clock steps (NTP, VM resume) while timers keep following the monotonic
// clock - the same split a real machine has.
package simtime

import (
	"time"

	"github.com/256dpi/lungo/verifsim/simrt"
)

// Now returns the simulated wall clock.
func Now() Time {
	s := simrt.Active()
	if s == nil {
		return time.Now()
	}
	if off := s.WallOffset(); off != 0 {
		// drop the monotonic reading: a stepped wall clock must not compare via monotonic time
		return time.Now().Add(off).Round(0)
	}
	return time.Now()
}

// Since returns the time elapsed since t.
func Since(t Time) Duration { return Now().Sub(t) }

// Until returns the duration until t.
func Until(t Time) Duration { return t.Sub(Now()) }
