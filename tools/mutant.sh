#!/bin/sh
# usage: tools/mutant.sh <patch> <property> [budget]   -- applies a patch to /repo, runs the quick check, reverts
set -u
P=$1; PROP=$2; B=${3:-20}
git -C /repo apply "$(realpath $P)" || { echo "patch does not apply"; exit 3; }
cd /verif && ./verif check "$PROP" --budget "$B" 2>&1 | grep -E "^(C[0-9]+ |violation|VIOLATION|VERIF-FAULT|KNOWN)" | cut -c1-400 | head -8
git -C /repo checkout -- .
