package model

import (
	"sort"
	"strconv"
	"strings"
	"time"

	"go.mongodb.org/mongo-driver/bson"
	"go.mongodb.org/mongo-driver/bson/primitive"
)

// NS is a namespace.
type NS struct{ DB, Coll string }

func (n NS) String() string { return n.DB + "." + n.Coll }

// Index is an index definition.
type Index struct {
	Name    string
	Key     D
	Unique  bool
	Partial D
	TTL     time.Duration // 0: none (expireAfterSeconds 0 is 1ns, like "immediately")
}

// Coll is a collection: documents in insertion order plus index definitions.
type Coll struct {
	Docs    []D
	Indexes []Index
}

// State is the whole database.
type State struct {
	Colls map[NS]*Coll
}

// New returns an empty state.
func New() *State { return &State{Colls: map[NS]*Coll{}} }

// Clone deep-copies the state.
func (s *State) Clone() *State {
	out := New()
	for ns, c := range s.Colls {
		nc := &Coll{Indexes: append([]Index(nil), c.Indexes...)}
		for _, d := range c.Docs {
			nc.Docs = append(nc.Docs, CloneD(d))
		}
		out.Colls[ns] = nc
	}
	return out
}

func newColl() *Coll {
	return &Coll{Indexes: []Index{{Name: "_id_", Key: D{{Key: "_id", Value: int32(1)}}, Unique: true}}}
}

func (s *State) ensure(ns NS) *Coll {
	c := s.Colls[ns]
	if c == nil {
		c = newColl()
		s.Colls[ns] = c
	}
	return c
}

// Err classes.
const (
	ErrNone = ""
	ErrDup  = "dup"
	ErrOther = "err"
)

// Res is the normalised result of a call.
type Res struct {
	Err      string
	Matched  int64
	Modified int64
	Upserted int64
	Deleted  int64
	Inserted int64
	IDs      []any // inserted ids / upserted id
	Docs     []D
	NoDoc    bool // single result without document
	Vals     []any
	Names    []string
	Count    int64
	// bulk
	UpsertedIDs map[int64]any
	ErrIdx      []int
	ErrDups     []bool
}

func classify(err error) string {
	if err == nil {
		return ErrNone
	}
	if _, ok := err.(dupErr); ok {
		return ErrDup
	}
	return ErrOther
}

type dupErr struct{ index string }

func (d dupErr) Error() string { return "duplicate key in " + d.index }

// ---- unique keys ----

func keyPaths(key D) []string {
	out := make([]string, len(key))
	for i, e := range key {
		out[i] = e.Key
	}
	return out
}

// tuples returns the index key tuples of a document: arrays fan out (cartesian
// product), an empty array is its own key, missing is null.
func tuples(doc D, key D) [][]any {
	out := [][]any{{}}
	for _, p := range keyPaths(key) {
		ls := leaves(doc, strings.Split(p, "."))
		var vals []any
		if len(ls) == 0 {
			vals = []any{nil}
		}
		for _, l := range ls {
			if a, ok := l.(A); ok {
				if len(a) == 0 {
					vals = append(vals, a)
				} else {
					for _, e := range a {
						if ea, ok := e.(A); ok && len(ea) > 0 {
							vals = append(vals, ea...)
						} else {
							vals = append(vals, e)
						}
					}
				}
			} else {
				vals = append(vals, l)
			}
		}
		var next [][]any
		for _, t := range out {
			for _, v := range vals {
				nt := append(append([]any{}, t...), v)
				next = append(next, nt)
			}
		}
		out = next
	}
	return out
}

func tupleEq(a, b []any) bool {
	for i := range a {
		if !Equal(a[i], b[i]) {
			return false
		}
	}
	return true
}

func (ix Index) covers(doc D) bool {
	if ix.Partial == nil {
		return true
	}
	m, err := Match(doc, ix.Partial)
	return err == nil && m
}

// UniqueViolation returns the name of a unique index under which two of the
// documents share a key, or "".
func UniqueViolation(docs []D, indexes []Index) string {
	for _, ix := range indexes {
		if !ix.Unique {
			continue
		}
		var seen [][]any
		var owner []int
		for di, d := range docs {
			if !ix.covers(d) {
				continue
			}
			for _, t := range tuples(d, ix.Key) {
				for si, s := range seen {
					if owner[si] != di && tupleEq(s, t) {
						return ix.Name
					}
				}
				seen = append(seen, t)
				owner = append(owner, di)
			}
		}
	}
	return ""
}

func (c *Coll) check(docs []D) error {
	if name := UniqueViolation(docs, c.Indexes); name != "" {
		return dupErr{name}
	}
	return nil
}

// ---- sort / project / distinct ----

func sortKey(d D, path string, desc bool) any {
	v := Get(d, path)
	if a, ok := v.(A); ok && len(a) > 0 {
		best := a[0]
		for _, e := range a[1:] {
			c := Compare(e, best)
			if (desc && c > 0) || (!desc && c < 0) {
				best = e
			}
		}
		return best
	}
	return v
}

// SortIdx returns the indices of docs ordered by the sort specification (stable).
func SortIdx(docs []D, spec D) ([]int, error) {
	idx := make([]int, len(docs))
	for i := range idx {
		idx[i] = i
	}
	if len(spec) == 0 {
		return idx, nil
	}
	dirs := make([]bool, len(spec))
	for i, e := range spec {
		n, ok := toInt(e.Value)
		if !ok || (n != 1 && n != -1) {
			return nil, bad("bad sort direction")
		}
		dirs[i] = n == -1
	}
	sort.SliceStable(idx, func(a, b int) bool {
		for i, e := range spec {
			c := Compare(sortKey(docs[idx[a]], e.Key, dirs[i]), sortKey(docs[idx[b]], e.Key, dirs[i]))
			if dirs[i] {
				c = -c
			}
			if c != 0 {
				return c < 0
			}
		}
		return false
	})
	return idx, nil
}

// Project applies a projection: top-level / dotted inclusion or exclusion
// through embedded documents, with _id handling, plus at most one $slice or
// $elemMatch expression. A $slice leaves everything but the named array as the
// rest of the projection decides; a $elemMatch path counts as an inclusion whose
// value is the first matching element (absent when nothing matches).
func Project(doc D, proj D) (D, error) {
	if proj == nil {
		return doc, nil
	}
	var inc, exc []string
	hideID := false
	type overlay struct {
		path string
		val  any
	}
	var over []overlay
	skip := map[string]bool{}
	for _, e := range proj {
		if ex, ok := e.Value.(D); ok {
			if len(ex) != 1 {
				return nil, bad("projection expression")
			}
			cur := Get(doc, e.Key)
			switch ex[0].Key {
			case "$slice":
				arr, isArr := cur.(A)
				w, err := sliceWindow(arr, ex[0].Value)
				if err != nil {
					return nil, err
				}
				if isArr {
					over = append(over, overlay{e.Key, w})
				}
			case "$elemMatch":
				q, ok := ex[0].Value.(D)
				if !ok {
					return nil, bad("$elemMatch needs a document")
				}
				// the conditions apply to the fields of one element
				cond := D{}
				for _, c := range q {
					if strings.HasPrefix(c.Key, "$") {
						return nil, bad("$elemMatch projection over %s", c.Key)
					}
					cond = append(cond, bson.E{Key: "item." + c.Key, Value: c.Value})
				}
				inc = append(inc, e.Key)
				skip[e.Key] = true
				if arr, isArr := cur.(A); isArr {
					for _, it := range arr {
						ok, err := Match(D{{Key: "item", Value: it}}, cond)
						if err != nil {
							return nil, err
						}
						if ok {
							over = append(over, overlay{e.Key, A{Clone(it)}})
							break
						}
					}
				}
			default:
				return nil, bad("unknown projection operator %s", ex[0].Key)
			}
			continue
		}
		on := truthy(e.Value)
		if e.Key == "_id" {
			if !on {
				hideID = true
			}
			continue
		}
		if on {
			inc = append(inc, e.Key)
		} else {
			exc = append(exc, e.Key)
		}
	}
	if len(inc) > 0 && len(exc) > 0 {
		return nil, bad("mixed projection")
	}
	var out D
	if len(inc) > 0 {
		out = D{}
		if id, ok := field(doc, "_id"); ok {
			out = append(out, bson.E{Key: "_id", Value: id})
		}
		for _, p := range inc {
			if skip[p] {
				continue
			}
			if v := Get(doc, p); v != Missing {
				r, err := put(out, strings.Split(p, "."), Clone(v))
				if err != nil {
					return nil, err
				}
				out = r.(D)
			}
		}
	} else {
		out = CloneD(doc)
		for _, p := range exc {
			out = unset(out, strings.Split(p, ".")).(D)
		}
	}
	for _, o := range over {
		r, err := put(out, strings.Split(o.path, "."), o.val)
		if err != nil {
			return nil, err
		}
		out = r.(D)
	}
	if hideID {
		out = unset(out, []string{"_id"}).(D)
	}
	return out, nil
}

// sliceWindow is the $slice projection window: n > 0 the first n, n < 0 the
// last -n, [skip, limit] limit elements after skipping (a negative skip counts
// from the end).
func sliceWindow(arr A, arg any) (A, error) {
	num := func(v any) (int, bool) {
		switch n := v.(type) {
		case int32:
			return int(n), true
		case int64:
			return int(n), true
		case float64:
			return int(n), true
		}
		return 0, false
	}
	n := len(arr)
	if pair, ok := arg.(A); ok {
		if len(pair) != 2 {
			return nil, bad("$slice needs two elements")
		}
		s, ok1 := num(pair[0])
		l, ok2 := num(pair[1])
		if !ok1 || !ok2 || l < 0 {
			return nil, bad("$slice arguments")
		}
		start := s
		if s < 0 {
			start = max(n+s, 0)
		}
		start = min(start, n)
		end := min(start+l, n)
		return Clone(arr[start:end]).(A), nil
	}
	l, ok := num(arg)
	if !ok {
		return nil, bad("$slice needs a number or an array")
	}
	switch {
	case l > 0:
		return Clone(arr[:min(l, n)]).(A), nil
	case l < 0:
		return Clone(arr[n-min(-l, n):]).(A), nil
	}
	return A{}, nil
}

// Distinct returns the distinct values at path (array elements individually), ascending.
func Distinct(docs []D, path string) []any {
	var vals []any
	for _, d := range docs {
		cs := leaves(d, strings.Split(path, "."))
		for _, c := range cs {
			if a, ok := c.(A); ok {
				vals = append(vals, a...)
			} else {
				vals = append(vals, c)
			}
		}
	}
	sort.SliceStable(vals, func(i, j int) bool { return Compare(vals[i], vals[j]) < 0 })
	var out []any
	for _, v := range vals {
		if len(out) == 0 || !Equal(out[len(out)-1], v) {
			out = append(out, v)
		}
	}
	return out
}

// ---- reads ----

type FindOpts struct {
	Sort  D
	Skip  int
	Limit int
	Proj  D
}

func (s *State) find(ns NS, filter D, o FindOpts) ([]D, error) {
	c := s.Colls[ns]
	if c == nil {
		// filters are still validated lazily by the implementation only when documents exist
		return nil, nil
	}
	order, err := SortIdx(c.Docs, o.Sort)
	if err != nil {
		return nil, err
	}
	var out []D
	for _, i := range order {
		m, err := Match(c.Docs[i], filter)
		if err != nil {
			return nil, err
		}
		if m {
			out = append(out, c.Docs[i])
		}
	}
	if o.Skip > len(out) {
		out = nil
	} else {
		out = out[o.Skip:]
	}
	if o.Limit > 0 && len(out) > o.Limit {
		out = out[:o.Limit]
	}
	return out, nil
}

// Find implements Find.
func (s *State) Find(ns NS, filter D, o FindOpts) Res {
	docs, err := s.find(ns, filter, o)
	if err != nil {
		return Res{Err: classify(err)}
	}
	res := Res{}
	for _, d := range docs {
		p, err := Project(d, o.Proj)
		if err != nil {
			return Res{Err: classify(err)}
		}
		res.Docs = append(res.Docs, CloneD(p))
	}
	return res
}

// FindOne implements FindOne.
func (s *State) FindOne(ns NS, filter D, o FindOpts) Res {
	o.Limit = 1
	r := s.Find(ns, filter, o)
	if r.Err == "" && len(r.Docs) == 0 {
		r.NoDoc = true
	}
	return r
}

// Count implements CountDocuments.
func (s *State) Count(ns NS, filter D, skip, limit int) Res {
	docs, err := s.find(ns, filter, FindOpts{Skip: skip, Limit: limit})
	if err != nil {
		return Res{Err: classify(err)}
	}
	return Res{Count: int64(len(docs))}
}

// Estimated implements EstimatedDocumentCount.
func (s *State) Estimated(ns NS) Res {
	c := s.Colls[ns]
	if c == nil {
		return Res{}
	}
	return Res{Count: int64(len(c.Docs))}
}

// DistinctOp implements Distinct.
func (s *State) DistinctOp(ns NS, path string, filter D) Res {
	docs, err := s.find(ns, filter, FindOpts{})
	if err != nil {
		return Res{Err: classify(err)}
	}
	return Res{Vals: Distinct(docs, path)}
}

// ---- writes ----

// IDGen supplies the id for a document stored without one: the harness passes
// the id the implementation generated. k is the number of documents the call
// has inserted so far (InsertMany), the item index (BulkWrite) or 0.
type IDGen func(k int) any

func ensureID(doc D, gen IDGen, k int) D {
	if _, ok := field(doc, "_id"); ok {
		return doc
	}
	return append(D{{Key: "_id", Value: gen(k)}}, doc...)
}

// Insert implements InsertOne / InsertMany.
func (s *State) Insert(ns NS, docs []D, ordered bool, gen IDGen) Res {
	c := s.ensureTentative(ns)
	res := Res{}
	cur := c.Docs
	for _, d := range docs {
		nd := ensureID(CloneD(d), gen, int(res.Inserted))
		try := append(append([]D{}, cur...), nd)
		if err := c.check(try); err != nil {
			if res.Err == "" {
				res.Err = classify(err)
			}
			if ordered {
				break
			}
			continue
		}
		cur = try
		id, _ := field(nd, "_id")
		res.IDs = append(res.IDs, id)
		res.Inserted++
	}
	if res.Inserted > 0 {
		s.Colls[ns] = c
		c.Docs = cur
	}
	return res
}

// ensureTentative returns the collection, or a fresh one that is only stored
// by the caller when the call changes something.
func (s *State) ensureTentative(ns NS) *Coll {
	if c := s.Colls[ns]; c != nil {
		return c
	}
	return newColl()
}

type UpdateOpts struct {
	Multi  bool
	Upsert bool
	Sort   D
	Now    time.Time
}

// update core: returns matched docs (old), new docs, upserted doc.
func (s *State) updateCore(ns NS, filter, update D, o UpdateOpts, gen IDGen) (old, new []D, upserted D, err error) {
	c := s.Colls[ns]
	if c == nil && !o.Upsert {
		return nil, nil, nil, nil
	}
	created := false
	if c == nil {
		c = newColl()
		created = true
	}
	order, err := SortIdx(c.Docs, o.Sort)
	if err != nil {
		return nil, nil, nil, err
	}
	var hit []int
	for _, i := range order {
		m, err := Match(c.Docs[i], filter)
		if err != nil {
			return nil, nil, nil, err
		}
		if m {
			hit = append(hit, i)
			if !o.Multi {
				break
			}
		}
	}
	if len(hit) == 0 {
		if !o.Upsert {
			// the update document is still validated by the implementation? no: nothing matched, nothing applied
			return nil, nil, nil, nil
		}
		seed, err := Seed(filter)
		if err != nil {
			return nil, nil, nil, err
		}
		doc, err := Apply(seed, update, true, o.Now)
		if err != nil {
			return nil, nil, nil, err
		}
		if _, ok := field(doc, "_id"); !ok {
			doc = append(D{{Key: "_id", Value: gen(0)}}, doc...)
		}
		try := append(append([]D{}, c.Docs...), doc)
		if err := c.check(try); err != nil {
			return nil, nil, nil, err
		}
		c.Docs = try
		if created {
			s.Colls[ns] = c
		}
		return nil, nil, doc, nil
	}
	next := append([]D{}, c.Docs...)
	for _, i := range hit {
		nd, err := Apply(c.Docs[i], update, false, o.Now)
		if err != nil {
			return nil, nil, nil, err
		}
		oid, _ := field(c.Docs[i], "_id")
		nid, ok := field(nd, "_id")
		if !ok || !sameValue(oid, nid) {
			return nil, nil, nil, bad("_id is immutable")
		}
		old = append(old, c.Docs[i])
		new = append(new, nd)
		next[i] = nd
	}
	if err := c.check(next); err != nil {
		return nil, nil, nil, err
	}
	c.Docs = next
	return old, new, nil, nil
}

// sameValue is identity of a single value including its type.
func sameValue(a, b any) bool {
	return Same(D{{Key: "v", Value: a}}, D{{Key: "v", Value: b}})
}

// Update implements UpdateOne / UpdateMany.
func (s *State) Update(ns NS, filter, update D, o UpdateOpts, gen IDGen) Res {
	old, new, ups, err := s.updateCore(ns, filter, update, o, gen)
	if err != nil {
		return Res{Err: classify(err)}
	}
	if ups != nil {
		id, _ := field(ups, "_id")
		return Res{Upserted: 1, IDs: []any{id}}
	}
	res := Res{Matched: int64(len(old))}
	for i := range old {
		if !Same(old[i], new[i]) {
			res.Modified++
		}
	}
	return res
}

// FindOneAndUpdate implements FindOneAndUpdate.
func (s *State) FindOneAndUpdate(ns NS, filter, update D, o UpdateOpts, after bool, proj D, gen IDGen) Res {
	o.Multi = false
	old, new, ups, err := s.updateCore(ns, filter, update, o, gen)
	if err != nil {
		return Res{Err: classify(err)}
	}
	var doc D
	switch {
	case ups != nil:
		if after {
			doc = ups
		}
	case len(old) > 0:
		doc = old[0]
		if after {
			doc = new[0]
		}
	}
	return single(doc, proj)
}

func single(doc D, proj D) Res {
	if doc == nil {
		return Res{NoDoc: true}
	}
	p, err := Project(doc, proj)
	if err != nil {
		return Res{Err: classify(err)}
	}
	return Res{Docs: []D{CloneD(p)}}
}

func (s *State) replaceCore(ns NS, filter, repl D, upsert bool, srt D, gen IDGen) (old, new, upserted D, err error) {
	if len(repl) > 0 && strings.HasPrefix(repl[0].Key, "$") {
		return nil, nil, nil, bad("replacement with operators")
	}
	c := s.Colls[ns]
	if c == nil && !upsert {
		return nil, nil, nil, nil
	}
	created := false
	if c == nil {
		c = newColl()
		created = true
	}
	order, err := SortIdx(c.Docs, srt)
	if err != nil {
		return nil, nil, nil, err
	}
	hit := -1
	for _, i := range order {
		m, err := Match(c.Docs[i], filter)
		if err != nil {
			return nil, nil, nil, err
		}
		if m {
			hit = i
			break
		}
	}
	if hit < 0 {
		if !upsert {
			return nil, nil, nil, nil
		}
		seed, err := Seed(filter)
		if err != nil {
			return nil, nil, nil, err
		}
		doc := CloneD(repl)
		qid, qok := field(seed, "_id")
		rid, rok := field(doc, "_id")
		if qok && rok && !Equal(qid, rid) {
			return nil, nil, nil, bad("query _id and replacement _id differ")
		}
		if !rok {
			if qok {
				doc = append(D{{Key: "_id", Value: qid}}, doc...)
			} else {
				doc = append(D{{Key: "_id", Value: gen(0)}}, doc...)
			}
		}
		try := append(append([]D{}, c.Docs...), doc)
		if err := c.check(try); err != nil {
			return nil, nil, nil, err
		}
		c.Docs = try
		if created {
			s.Colls[ns] = c
		}
		return nil, nil, doc, nil
	}
	nd := CloneD(repl)
	oid, _ := field(c.Docs[hit], "_id")
	if rid, ok := field(nd, "_id"); ok {
		if !sameValue(oid, rid) {
			return nil, nil, nil, bad("_id is immutable")
		}
	} else {
		nd = append(D{{Key: "_id", Value: oid}}, nd...)
	}
	next := append([]D{}, c.Docs...)
	next[hit] = nd
	if err := c.check(next); err != nil {
		return nil, nil, nil, err
	}
	old = c.Docs[hit]
	c.Docs = next
	return old, nd, nil, nil
}

// Replace implements ReplaceOne.
func (s *State) Replace(ns NS, filter, repl D, upsert bool, gen IDGen) Res {
	old, new, ups, err := s.replaceCore(ns, filter, repl, upsert, nil, gen)
	if err != nil {
		return Res{Err: classify(err)}
	}
	if ups != nil {
		id, _ := field(ups, "_id")
		return Res{Upserted: 1, IDs: []any{id}}
	}
	if old == nil {
		return Res{}
	}
	res := Res{Matched: 1}
	if !Same(old, new) {
		res.Modified = 1
	}
	return res
}

// FindOneAndReplace implements FindOneAndReplace.
func (s *State) FindOneAndReplace(ns NS, filter, repl D, upsert bool, srt D, after bool, proj D, gen IDGen) Res {
	old, new, ups, err := s.replaceCore(ns, filter, repl, upsert, srt, gen)
	if err != nil {
		return Res{Err: classify(err)}
	}
	var doc D
	switch {
	case ups != nil:
		if after {
			doc = ups
		}
	case old != nil:
		doc = old
		if after {
			doc = new
		}
	}
	return single(doc, proj)
}

func (s *State) deleteCore(ns NS, filter D, multi bool, srt D) ([]D, error) {
	c := s.Colls[ns]
	if c == nil {
		return nil, nil
	}
	order, err := SortIdx(c.Docs, srt)
	if err != nil {
		return nil, err
	}
	del := map[int]bool{}
	var out []D
	for _, i := range order {
		m, err := Match(c.Docs[i], filter)
		if err != nil {
			return nil, err
		}
		if m {
			del[i] = true
			out = append(out, c.Docs[i])
			if !multi {
				break
			}
		}
	}
	if len(del) > 0 {
		var keep []D
		for i, d := range c.Docs {
			if !del[i] {
				keep = append(keep, d)
			}
		}
		c.Docs = keep
	}
	return out, nil
}

// Delete implements DeleteOne / DeleteMany.
func (s *State) Delete(ns NS, filter D, multi bool) Res {
	out, err := s.deleteCore(ns, filter, multi, nil)
	if err != nil {
		return Res{Err: classify(err)}
	}
	return Res{Deleted: int64(len(out))}
}

// FindOneAndDelete implements FindOneAndDelete.
func (s *State) FindOneAndDelete(ns NS, filter D, srt D, proj D) Res {
	out, err := s.deleteCore(ns, filter, false, srt)
	if err != nil {
		return Res{Err: classify(err)}
	}
	if len(out) == 0 {
		return Res{NoDoc: true}
	}
	return single(out[0], proj)
}

// BulkItem is one bulk write model.
type BulkItem struct {
	Kind   string // insert | updateOne | updateMany | replace | deleteOne | deleteMany
	Doc    D
	Filter D
	Update D
	Upsert bool
}

// Bulk implements BulkWrite. Each item is atomic; a failing item contributes nothing.
func (s *State) Bulk(ns NS, items []BulkItem, ordered bool, now time.Time, gen IDGen) Res {
	res := Res{UpsertedIDs: map[int64]any{}}
	for i, it := range items {
		var r Res
		i := i
		outer := gen
		gen := func(int) any { return outer(i) }
		switch it.Kind {
		case "insert":
			r = s.Insert(ns, []D{it.Doc}, true, gen)
			res.Inserted += r.Inserted
		case "updateOne", "updateMany":
			r = s.Update(ns, it.Filter, it.Update, UpdateOpts{Multi: it.Kind == "updateMany", Upsert: it.Upsert, Now: now}, gen)
		case "replace":
			r = s.Replace(ns, it.Filter, it.Doc, it.Upsert, gen)
		case "deleteOne", "deleteMany":
			r = s.Delete(ns, it.Filter, it.Kind == "deleteMany")
		}
		if r.Err != "" {
			res.ErrIdx = append(res.ErrIdx, i)
			res.ErrDups = append(res.ErrDups, r.Err == ErrDup)
			if res.Err == "" {
				res.Err = r.Err
			}
			if ordered {
				break
			}
			continue
		}
		res.Matched += r.Matched
		res.Modified += r.Modified
		res.Deleted += r.Deleted
		if r.Upserted > 0 {
			res.Upserted++
			res.UpsertedIDs[int64(i)] = r.IDs[0]
		}
	}
	return res
}

// ---- catalog ----

// CreateCollection implements CreateCollection.
func (s *State) CreateCollection(ns NS) Res {
	s.ensure(ns)
	return Res{}
}

// DropCollection implements Collection.Drop.
func (s *State) DropCollection(ns NS) Res {
	delete(s.Colls, ns)
	return Res{}
}

// DropDatabase implements Database.Drop.
func (s *State) DropDatabase(db string) Res {
	for ns := range s.Colls {
		if ns.DB == db {
			delete(s.Colls, ns)
		}
	}
	return Res{}
}

// ListCollections implements ListCollectionNames.
func (s *State) ListCollections(db string) Res {
	names := []string{}
	for ns := range s.Colls {
		if ns.DB == db {
			names = append(names, ns.Coll)
		}
	}
	return Res{Names: sortStrings(names)}
}

// ListDatabases implements ListDatabaseNames (lungo also lists "local").
func (s *State) ListDatabases() Res {
	set := map[string]bool{"local": true}
	for ns := range s.Colls {
		set[ns.DB] = true
	}
	names := []string{}
	for n := range set {
		names = append(names, n)
	}
	return Res{Names: sortStrings(names)}
}

// ---- indexes ----

// IndexName computes the default index name.
func IndexName(key D) string {
	var parts []string
	for _, e := range key {
		n, _ := toInt(e.Value)
		parts = append(parts, e.Key, strconv.Itoa(n))
	}
	return strings.Join(parts, "_")
}

func sameIndex(a, b Index) bool {
	if !Same(a.Key, b.Key) && !Equal(a.Key, b.Key) {
		return false
	}
	pa, pb := a.Partial, b.Partial
	if pa == nil {
		pa = D{}
	}
	if pb == nil {
		pb = D{}
	}
	return a.Unique == b.Unique && Equal(pa, pb) && a.TTL == b.TTL
}

// CreateIndex implements Indexes().CreateOne.
func (s *State) CreateIndex(ns NS, ix Index) Res {
	if len(ix.Key) == 0 {
		return Res{Err: ErrOther}
	}
	for _, e := range ix.Key {
		n, ok := toInt(e.Value)
		if !ok || (n != 1 && n != -1) {
			return Res{Err: ErrOther}
		}
	}
	if ix.TTL > 0 && len(ix.Key) > 1 {
		return Res{Err: ErrOther}
	}
	if ix.Name == "" {
		ix.Name = IndexName(ix.Key)
	}
	c := s.ensureTentative(ns)
	for _, ex := range c.Indexes {
		if ex.Name == ix.Name {
			if sameIndex(ex, ix) {
				if s.Colls[ns] == nil {
					s.Colls[ns] = c
				}
				return Res{Names: []string{ix.Name}}
			}
			return Res{Err: ErrOther}
		}
	}
	for _, ex := range c.Indexes {
		if Equal(ex.Key, ix.Key) {
			return Res{Err: ErrOther}
		}
	}
	if ix.Unique {
		if name := UniqueViolation(c.Docs, []Index{ix}); name != "" {
			return Res{Err: ErrDup}
		}
	}
	c.Indexes = append(c.Indexes, ix)
	s.Colls[ns] = c
	return Res{Names: []string{ix.Name}}
}

// DropIndex implements DropOne (by name). The _id index cannot be dropped.
func (s *State) DropIndex(ns NS, name string) Res {
	c := s.Colls[ns]
	if c == nil {
		return Res{Err: ErrOther}
	}
	if name == "_id_" {
		return Res{Err: ErrOther}
	}
	for i, ex := range c.Indexes {
		if ex.Name == name {
			c.Indexes = append(c.Indexes[:i:i], c.Indexes[i+1:]...)
			return Res{}
		}
	}
	return Res{Err: ErrOther}
}

// DropIndexByKey implements DropOneWithKey.
func (s *State) DropIndexByKey(ns NS, key D) Res {
	c := s.Colls[ns]
	if c == nil {
		return Res{Err: ErrOther}
	}
	for _, ex := range c.Indexes {
		if Equal(ex.Key, key) {
			return s.DropIndex(ns, ex.Name)
		}
	}
	return Res{Err: ErrOther}
}

// DropAllIndexes implements DropAll.
func (s *State) DropAllIndexes(ns NS) Res {
	c := s.Colls[ns]
	if c == nil {
		return Res{Err: ErrOther}
	}
	var keep []Index
	for _, ex := range c.Indexes {
		if ex.Name == "_id_" {
			keep = append(keep, ex)
		}
	}
	c.Indexes = keep
	return Res{}
}

// ListIndexes returns the index specifications sorted by name.
func (s *State) ListIndexes(ns NS) Res {
	c := s.Colls[ns]
	if c == nil {
		return Res{}
	}
	ixs := append([]Index(nil), c.Indexes...)
	sort.Slice(ixs, func(i, j int) bool { return ixs[i].Name < ixs[j].Name })
	res := Res{}
	for _, ix := range ixs {
		spec := D{{Key: "v", Value: int32(2)}, {Key: "key", Value: ix.Key}, {Key: "name", Value: ix.Name}}
		if ix.Unique && ix.Name != "_id_" {
			spec = append(spec, bson.E{Key: "unique", Value: true})
		}
		if ix.Partial != nil {
			spec = append(spec, bson.E{Key: "partialFilterExpression", Value: ix.Partial})
		}
		if ix.TTL > 0 {
			spec = append(spec, bson.E{Key: "expireAfterSeconds", Value: int32(ix.TTL / time.Second)})
		}
		res.Docs = append(res.Docs, spec)
	}
	return res
}

// ---- TTL ----

// Expired returns, per namespace, the documents an expiry pass at time now
// must remove and those it may remove (within tol of a cut-off).
func (s *State) Expired(now time.Time, tol time.Duration) (must, may map[NS][]D) {
	must, may = map[NS][]D{}, map[NS][]D{}
	for ns, c := range s.Colls {
		for _, d := range c.Docs {
			mu, ma := false, false
			for _, ix := range c.Indexes {
				if ix.TTL <= 0 {
					continue
				}
				cut := now.Add(-ix.TTL)
				v := Get(d, ix.Key[0].Key)
				var dates []primitive.DateTime
				switch x := v.(type) {
				case primitive.DateTime:
					dates = append(dates, x)
				case A:
					for _, e := range x {
						if dt, ok := e.(primitive.DateTime); ok {
							dates = append(dates, dt)
						}
					}
				}
				for _, dt := range dates {
					t := dt.Time()
					if t.Before(cut.Add(-tol)) {
						mu = true
					} else if t.Before(cut.Add(tol)) {
						ma = true
					}
				}
			}
			if mu {
				must[ns] = append(must[ns], d)
			} else if ma {
				may[ns] = append(may[ns], d)
			}
		}
	}
	return
}

// Remove deletes the given documents (by identity of _id) from a namespace.
func (s *State) Remove(ns NS, ids []any) {
	c := s.Colls[ns]
	if c == nil {
		return
	}
	var keep []D
	for _, d := range c.Docs {
		id, _ := field(d, "_id")
		drop := false
		for _, x := range ids {
			if sameValue(id, x) {
				drop = true
			}
		}
		if !drop {
			keep = append(keep, d)
		}
	}
	c.Docs = keep
}

// Tuples exposes the index key tuples of a document.
func Tuples(doc D, key D) [][]any { return tuples(doc, key) }
