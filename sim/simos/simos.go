// Package simos replaces package os in the instrumented lungo module. With no
// simulated disk attached every call goes to the real operating system. With
// a Disk attached, files live in an in-memory POSIX-style file system that
// separates volatile from durable state, numbers every call as a fault point
// and lets the harness inject errors, short writes, process kills and power
// loss.
package simos

import (
	"errors"
	"io"
	"io/fs"
	"os"
	"path/filepath"
	"sort"
	"sync/atomic"
	"syscall"
	"time"

	"github.com/256dpi/lungo/verifsim/simrt"
)

// Crash is the panic value that unwinds a task whose "process" was killed at a
// disk fault point.
type Crash struct{ Op Op }

func (c Crash) Error() string { return "simos: process killed at " + c.Op.Kind + " " + c.Op.Path }

// Op is one recorded file system call.
type Op struct {
	N     int    `json:"n"`
	Kind  string `json:"kind"`
	Path  string `json:"path,omitempty"`
	Path2 string `json:"path2,omitempty"`
	Size  int    `json:"size,omitempty"`
	Fault string `json:"fault,omitempty"`
}

// Action is what happens at a fault point.
type Action int

// Fault actions.
const (
	None       Action = iota
	Fail              // the call fails with Errno and has no effect (for write: Short bytes are written first)
	KillBefore        // the process dies before the call takes effect
	KillAfter         // the process dies after the call took effect (for write: after Short bytes if Short >= 0)
)

// Decision is the harness's verdict for one fault point.
type Decision struct {
	Action  Action
	Errno   syscall.Errno
	Short   int           // bytes written before a failing / killed write (-1: all)
	Latency time.Duration // simulated duration of the call
}

type wr struct {
	off   int
	data  []byte
	trunc bool // truncate to off
}

type inode struct {
	id     int
	data   []byte
	synced []byte
	writes []wr
	mode   fs.FileMode
	mtime  time.Time
}

type dirOp struct {
	dir  string
	kind string // link | unlink
	name string // full path
	ino  *inode
}

// Disk is the simulated disk.
type Disk struct {
	vol     map[string]*inode
	dur     map[string]*inode
	dirs    map[string]bool
	pending []dirOp
	nextIno int

	epoch  int
	dead   bool
	points int

	// BlockSize splits writes into separately persisted blocks.
	BlockSize int
	// Decide is consulted at every fault point (nil: no faults).
	Decide func(op Op) Decision
	// Log records every call.
	Log []Op
}

var disk atomic.Pointer[Disk]

// NewDisk creates an empty disk with the given directories.
func NewDisk(blockSize int, dirs ...string) *Disk {
	d := &Disk{vol: map[string]*inode{}, dur: map[string]*inode{}, dirs: map[string]bool{}, BlockSize: blockSize}
	for _, x := range dirs {
		d.dirs[filepath.Clean(x)] = true
	}
	return d
}

// Attach makes d the disk behind the os API (nil detaches).
func Attach(d *Disk) { disk.Store(d) }

func cur() *Disk {
	if simrt.Active() == nil {
		return nil
	}
	return disk.Load()
}

// Points returns the number of fault points passed so far.
func (d *Disk) Points() int { return d.points }

// Dead reports whether the current incarnation has been killed.
func (d *Disk) Dead() bool { return d.dead }

func pathErr(op, path string, errno syscall.Errno) error {
	return &fs.PathError{Op: op, Path: path, Err: errno}
}

// point registers a fault point; it returns the decision. It panics with Crash
// for KillBefore. For a dead incarnation it returns (Decision{}, false): the
// caller must ignore the call.
func (d *Disk) point(kind, path, path2 string, size int) (Decision, Op, bool) {
	if d.dead {
		return Decision{}, Op{}, false
	}
	simrt.Yield("disk:" + kind)
	if d.dead {
		return Decision{}, Op{}, false
	}
	op := Op{N: d.points, Kind: kind, Path: path, Path2: path2, Size: size}
	d.points++
	var dec Decision
	dec.Short = -1
	if d.Decide != nil {
		dec = d.Decide(op)
	}
	switch dec.Action {
	case Fail:
		op.Fault = "fail:" + dec.Errno.Error()
	case KillBefore:
		op.Fault = "kill-before"
	case KillAfter:
		op.Fault = "kill-after"
	}
	d.Log = append(d.Log, op)
	if dec.Latency > 0 {
		time.Sleep(dec.Latency)
		simrt.Yield("disk:wake")
	}
	if dec.Action == KillBefore {
		d.dead = true
		panic(Crash{op})
	}
	return dec, op, true
}

func (d *Disk) killAfter(dec Decision, op Op) {
	if dec.Action == KillAfter {
		d.dead = true
		panic(Crash{op})
	}
}

var errDead = errors.New("simos: call by a killed process (ignored)")

// File replaces os.File.
type File struct {
	real *os.File

	d      *Disk
	epoch  int
	path   string
	ino    *inode
	isDir  bool
	pos    int
	flags  int
	closed bool
}

func (d *Disk) isDir(path string) bool {
	path = filepath.Clean(path)
	if d.dirs[path] {
		return true
	}
	for p := range d.vol {
		if filepath.Dir(p) == path {
			return true
		}
	}
	return false
}

// OpenFile replaces os.OpenFile.
func OpenFile(name string, flag int, perm FileMode) (*File, error) {
	d := cur()
	if d == nil {
		f, err := os.OpenFile(name, flag, perm)
		if err != nil {
			return nil, err
		}
		return &File{real: f}, nil
	}
	name = filepath.Clean(name)
	dec, op, ok := d.point("open", name, "", flag)
	if !ok {
		return nil, errDead
	}
	if dec.Action == Fail {
		return nil, pathErr("open", name, dec.Errno)
	}
	ino := d.vol[name]
	if ino == nil && d.isDir(name) {
		if flag&(os.O_WRONLY|os.O_RDWR) != 0 {
			return nil, pathErr("open", name, syscall.EISDIR)
		}
		f := &File{d: d, epoch: d.epoch, path: name, isDir: true}
		d.killAfter(dec, op)
		return f, nil
	}
	if ino == nil {
		if flag&os.O_CREATE == 0 {
			return nil, pathErr("open", name, syscall.ENOENT)
		}
		if !d.isDir(filepath.Dir(name)) {
			return nil, pathErr("open", name, syscall.ENOENT)
		}
		d.nextIno++
		ino = &inode{id: d.nextIno, mode: perm, mtime: time.Now()}
		d.vol[name] = ino
		d.pending = append(d.pending, dirOp{dir: filepath.Dir(name), kind: "link", name: name, ino: ino})
	} else {
		if flag&os.O_CREATE != 0 && flag&os.O_EXCL != 0 {
			return nil, pathErr("open", name, syscall.EEXIST)
		}
		if flag&os.O_TRUNC != 0 && flag&(os.O_WRONLY|os.O_RDWR) != 0 {
			ino.data = nil
			ino.writes = append(ino.writes, wr{off: 0, trunc: true})
		}
	}
	f := &File{d: d, epoch: d.epoch, path: name, ino: ino, flags: flag}
	d.killAfter(dec, op)
	return f, nil
}

// Open replaces os.Open.
func Open(name string) (*File, error) { return OpenFile(name, os.O_RDONLY, 0) }

// Create replaces os.Create.
func Create(name string) (*File, error) {
	return OpenFile(name, os.O_RDWR|os.O_CREATE|os.O_TRUNC, 0666)
}

// CreateTemp replaces os.CreateTemp (deterministic names inside a simulation).
func CreateTemp(dir, pattern string) (*File, error) {
	d := cur()
	if d == nil {
		f, err := os.CreateTemp(dir, pattern)
		if err != nil {
			return nil, err
		}
		return &File{real: f}, nil
	}
	if dir == "" {
		dir = "/tmp"
	}
	for i := 0; ; i++ {
		name := filepath.Join(dir, pattern+"."+itoa(i))
		if _, ok := d.vol[name]; ok {
			continue
		}
		return OpenFile(name, os.O_RDWR|os.O_CREATE|os.O_EXCL, 0600)
	}
}

func itoa(i int) string {
	if i == 0 {
		return "0"
	}
	s := ""
	for i > 0 {
		s = string(rune('0'+i%10)) + s
		i /= 10
	}
	return s
}

func (f *File) stale() bool { return f.d.dead || f.epoch != f.d.epoch }

// Name returns the file name.
func (f *File) Name() string {
	if f.real != nil {
		return f.real.Name()
	}
	return f.path
}

// Fd returns the descriptor of a real file (or an invalid one).
func (f *File) Fd() uintptr {
	if f.real != nil {
		return f.real.Fd()
	}
	return ^uintptr(0)
}

// Write writes b at the current position.
func (f *File) Write(b []byte) (int, error) {
	if f.real != nil {
		return f.real.Write(b)
	}
	d := f.d
	if f.stale() {
		return 0, errDead
	}
	dec, op, ok := d.point("write", f.path, "", len(b))
	if !ok {
		return 0, errDead
	}
	if f.closed {
		return 0, pathErr("write", f.path, syscall.EBADF)
	}
	if f.isDir || f.flags&(os.O_WRONLY|os.O_RDWR) == 0 {
		return 0, pathErr("write", f.path, syscall.EBADF)
	}
	n := len(b)
	if dec.Action == Fail || dec.Action == KillAfter {
		if dec.Short >= 0 && dec.Short < n {
			n = dec.Short
		}
	}
	if f.flags&os.O_APPEND != 0 {
		f.pos = len(f.ino.data)
	}
	f.writeAt(b[:n], f.pos)
	f.pos += n
	d.killAfter(dec, op)
	if dec.Action == Fail {
		return n, pathErr("write", f.path, dec.Errno)
	}
	return n, nil
}

func (f *File) writeAt(b []byte, off int) {
	ino := f.ino
	if len(b) == 0 {
		return
	}
	if need := off + len(b); need > len(ino.data) {
		ino.data = append(ino.data, make([]byte, need-len(ino.data))...)
	}
	copy(ino.data[off:], b)
	bs := f.d.BlockSize
	if bs <= 0 {
		bs = 4096
	}
	for i := 0; i < len(b); i += bs {
		j := i + bs
		if j > len(b) {
			j = len(b)
		}
		ino.writes = append(ino.writes, wr{off: off + i, data: append([]byte(nil), b[i:j]...)})
	}
	ino.mtime = time.Now()
}

// WriteString writes a string.
func (f *File) WriteString(s string) (int, error) { return f.Write([]byte(s)) }

// WriteAt writes at an offset.
func (f *File) WriteAt(b []byte, off int64) (int, error) {
	if f.real != nil {
		return f.real.WriteAt(b, off)
	}
	if f.stale() {
		return 0, errDead
	}
	dec, op, ok := f.d.point("write", f.path, "", len(b))
	if !ok {
		return 0, errDead
	}
	n := len(b)
	if (dec.Action == Fail || dec.Action == KillAfter) && dec.Short >= 0 && dec.Short < n {
		n = dec.Short
	}
	f.writeAt(b[:n], int(off))
	f.d.killAfter(dec, op)
	if dec.Action == Fail {
		return n, pathErr("write", f.path, dec.Errno)
	}
	return n, nil
}

// ReadFrom keeps io.Copy on the generic path (one Write per chunk).
func (f *File) ReadFrom(r io.Reader) (int64, error) {
	if f.real != nil {
		return f.real.ReadFrom(r)
	}
	return io.Copy(struct{ io.Writer }{f}, r)
}

// Read reads from the current position.
func (f *File) Read(b []byte) (int, error) {
	if f.real != nil {
		return f.real.Read(b)
	}
	if f.stale() {
		return 0, errDead
	}
	dec, op, ok := f.d.point("read", f.path, "", len(b))
	if !ok {
		return 0, errDead
	}
	if dec.Action == Fail {
		return 0, pathErr("read", f.path, dec.Errno)
	}
	if f.isDir {
		return 0, pathErr("read", f.path, syscall.EISDIR)
	}
	if f.pos >= len(f.ino.data) {
		return 0, io.EOF
	}
	n := copy(b, f.ino.data[f.pos:])
	f.pos += n
	f.d.killAfter(dec, op)
	return n, nil
}

// ReadAt reads at an offset.
func (f *File) ReadAt(b []byte, off int64) (int, error) {
	if f.real != nil {
		return f.real.ReadAt(b, off)
	}
	if f.stale() {
		return 0, errDead
	}
	if int(off) >= len(f.ino.data) {
		return 0, io.EOF
	}
	n := copy(b, f.ino.data[off:])
	if n < len(b) {
		return n, io.EOF
	}
	return n, nil
}

// Seek sets the position.
func (f *File) Seek(offset int64, whence int) (int64, error) {
	if f.real != nil {
		return f.real.Seek(offset, whence)
	}
	switch whence {
	case io.SeekStart:
		f.pos = int(offset)
	case io.SeekCurrent:
		f.pos += int(offset)
	case io.SeekEnd:
		f.pos = len(f.ino.data) + int(offset)
	}
	return int64(f.pos), nil
}

// Truncate changes the size.
func (f *File) Truncate(size int64) error {
	if f.real != nil {
		return f.real.Truncate(size)
	}
	if f.stale() {
		return errDead
	}
	dec, op, ok := f.d.point("truncate", f.path, "", int(size))
	if !ok {
		return errDead
	}
	if dec.Action == Fail {
		return pathErr("truncate", f.path, dec.Errno)
	}
	truncateIno(f.ino, int(size))
	f.d.killAfter(dec, op)
	return nil
}

func truncateIno(ino *inode, size int) {
	if size < len(ino.data) {
		ino.data = ino.data[:size]
	} else {
		ino.data = append(ino.data, make([]byte, size-len(ino.data))...)
	}
	ino.writes = append(ino.writes, wr{off: size, trunc: true})
}

// Sync makes the file content (or, for a directory, its entries) durable.
func (f *File) Sync() error {
	if f.real != nil {
		return f.real.Sync()
	}
	if f.stale() {
		return errDead
	}
	kind := "fsync"
	if f.isDir {
		kind = "fsyncdir"
	}
	dec, op, ok := f.d.point(kind, f.path, "", 0)
	if !ok {
		return errDead
	}
	if f.closed {
		return pathErr("sync", f.path, syscall.EBADF)
	}
	if dec.Action == Fail {
		return pathErr("sync", f.path, dec.Errno)
	}
	if f.isDir {
		f.d.syncDir(f.path)
	} else {
		f.ino.synced = append([]byte(nil), f.ino.data...)
		f.ino.writes = nil
	}
	f.d.killAfter(dec, op)
	return nil
}

func (d *Disk) syncDir(dir string) {
	rest := d.pending[:0]
	for _, op := range d.pending {
		if op.dir != dir {
			rest = append(rest, op)
			continue
		}
		applyDirOp(d.dur, op)
	}
	d.pending = rest
}

func applyDirOp(ns map[string]*inode, op dirOp) {
	switch op.kind {
	case "link":
		ns[op.name] = op.ino
	case "unlink":
		if op.ino == nil || ns[op.name] == op.ino {
			delete(ns, op.name)
		}
	default: // rename:<old>
		old := op.kind[len("rename:"):]
		ns[op.name] = op.ino
		if ns[old] == op.ino {
			delete(ns, old)
		}
	}
}

// Close closes the file.
func (f *File) Close() error {
	if f.real != nil {
		return f.real.Close()
	}
	if f.stale() {
		return errDead
	}
	dec, op, ok := f.d.point("close", f.path, "", 0)
	if !ok {
		return errDead
	}
	if f.closed {
		return pathErr("close", f.path, syscall.EBADF)
	}
	f.closed = true
	if dec.Action == Fail {
		return pathErr("close", f.path, dec.Errno)
	}
	f.d.killAfter(dec, op)
	return nil
}

// Stat returns file information.
func (f *File) Stat() (FileInfo, error) {
	if f.real != nil {
		return f.real.Stat()
	}
	if f.isDir {
		return info{name: filepath.Base(f.path), dir: true}, nil
	}
	return info{name: filepath.Base(f.path), size: int64(len(f.ino.data)), mode: f.ino.mode, mtime: f.ino.mtime}, nil
}

// Chmod changes the mode.
func (f *File) Chmod(mode FileMode) error {
	if f.real != nil {
		return f.real.Chmod(mode)
	}
	if f.ino != nil {
		f.ino.mode = mode
	}
	return nil
}

// Readdirnames lists a directory.
func (f *File) Readdirnames(n int) ([]string, error) {
	if f.real != nil {
		return f.real.Readdirnames(n)
	}
	var names []string
	for p := range f.d.vol {
		if filepath.Dir(p) == f.path {
			names = append(names, filepath.Base(p))
		}
	}
	sort.Strings(names)
	return names, nil
}

type info struct {
	name  string
	size  int64
	mode  fs.FileMode
	mtime time.Time
	dir   bool
}

func (i info) Name() string { return i.name }
func (i info) Size() int64  { return i.size }
func (i info) Mode() fs.FileMode {
	if i.dir {
		return fs.ModeDir | 0755
	}
	return i.mode
}
func (i info) ModTime() time.Time { return i.mtime }
func (i info) IsDir() bool        { return i.dir }
func (i info) Sys() any           { return nil }

// ReadFile replaces os.ReadFile.
func ReadFile(name string) ([]byte, error) {
	d := cur()
	if d == nil {
		return os.ReadFile(name)
	}
	name = filepath.Clean(name)
	dec, op, ok := d.point("readfile", name, "", 0)
	if !ok {
		return nil, errDead
	}
	if dec.Action == Fail {
		return nil, pathErr("open", name, dec.Errno)
	}
	ino := d.vol[name]
	if ino == nil {
		return nil, pathErr("open", name, syscall.ENOENT)
	}
	out := append([]byte{}, ino.data...)
	d.killAfter(dec, op)
	return out, nil
}

// WriteFile replaces os.WriteFile (open with truncation, one write, close; no sync).
func WriteFile(name string, data []byte, perm FileMode) error {
	d := cur()
	if d == nil {
		return os.WriteFile(name, data, perm)
	}
	f, err := OpenFile(name, os.O_WRONLY|os.O_CREATE|os.O_TRUNC, perm)
	if err != nil {
		return err
	}
	_, err = f.Write(data)
	if err1 := f.Close(); err1 != nil && err == nil {
		err = err1
	}
	return err
}

// Remove replaces os.Remove.
func Remove(name string) error {
	d := cur()
	if d == nil {
		return os.Remove(name)
	}
	name = filepath.Clean(name)
	dec, op, ok := d.point("remove", name, "", 0)
	if !ok {
		return errDead
	}
	if dec.Action == Fail {
		return pathErr("remove", name, dec.Errno)
	}
	ino := d.vol[name]
	if ino == nil {
		return pathErr("remove", name, syscall.ENOENT)
	}
	delete(d.vol, name)
	d.pending = append(d.pending, dirOp{dir: filepath.Dir(name), kind: "unlink", name: name, ino: ino})
	d.killAfter(dec, op)
	return nil
}

// RemoveAll replaces os.RemoveAll.
func RemoveAll(name string) error {
	d := cur()
	if d == nil {
		return os.RemoveAll(name)
	}
	name = filepath.Clean(name)
	var victims []string
	for p := range d.vol {
		if p == name || len(p) > len(name) && p[:len(name)+1] == name+"/" {
			victims = append(victims, p)
		}
	}
	sort.Strings(victims)
	for _, p := range victims {
		if err := Remove(p); err != nil {
			return err
		}
	}
	delete(d.dirs, name)
	return nil
}

// Rename replaces os.Rename.
func Rename(oldpath, newpath string) error {
	d := cur()
	if d == nil {
		return os.Rename(oldpath, newpath)
	}
	oldpath, newpath = filepath.Clean(oldpath), filepath.Clean(newpath)
	dec, op, ok := d.point("rename", oldpath, newpath, 0)
	if !ok {
		return errDead
	}
	if dec.Action == Fail {
		return &os.LinkError{Op: "rename", Old: oldpath, New: newpath, Err: dec.Errno}
	}
	ino := d.vol[oldpath]
	if ino == nil {
		return &os.LinkError{Op: "rename", Old: oldpath, New: newpath, Err: syscall.ENOENT}
	}
	delete(d.vol, oldpath)
	d.vol[newpath] = ino
	// one atomic directory transaction: the new name points to the inode and the old name is gone
	d.pending = append(d.pending, dirOp{dir: filepath.Dir(newpath), kind: "rename:" + oldpath, name: newpath, ino: ino})
	d.killAfter(dec, op)
	return nil
}

// Stat replaces os.Stat.
func Stat(name string) (FileInfo, error) {
	d := cur()
	if d == nil {
		return os.Stat(name)
	}
	name = filepath.Clean(name)
	if ino := d.vol[name]; ino != nil {
		return info{name: filepath.Base(name), size: int64(len(ino.data)), mode: ino.mode, mtime: ino.mtime}, nil
	}
	if d.isDir(name) {
		return info{name: filepath.Base(name), dir: true}, nil
	}
	return nil, pathErr("stat", name, syscall.ENOENT)
}

// Lstat replaces os.Lstat.
func Lstat(name string) (FileInfo, error) { return Stat(name) }

// Mkdir replaces os.Mkdir.
func Mkdir(name string, perm FileMode) error {
	d := cur()
	if d == nil {
		return os.Mkdir(name, perm)
	}
	d.dirs[filepath.Clean(name)] = true
	return nil
}

// MkdirAll replaces os.MkdirAll.
func MkdirAll(name string, perm FileMode) error {
	d := cur()
	if d == nil {
		return os.MkdirAll(name, perm)
	}
	d.dirs[filepath.Clean(name)] = true
	return nil
}

// MkdirTemp replaces os.MkdirTemp.
func MkdirTemp(dir, pattern string) (string, error) {
	d := cur()
	if d == nil {
		return os.MkdirTemp(dir, pattern)
	}
	name := filepath.Join(dir, pattern+".d")
	d.dirs[name] = true
	return name, nil
}

// ReadDir replaces os.ReadDir.
func ReadDir(name string) ([]DirEntry, error) {
	d := cur()
	if d == nil {
		return os.ReadDir(name)
	}
	name = filepath.Clean(name)
	var out []DirEntry
	var names []string
	for p := range d.vol {
		if filepath.Dir(p) == name {
			names = append(names, p)
		}
	}
	sort.Strings(names)
	for _, p := range names {
		ino := d.vol[p]
		out = append(out, fs.FileInfoToDirEntry(info{name: filepath.Base(p), size: int64(len(ino.data)), mode: ino.mode, mtime: ino.mtime}))
	}
	return out, nil
}

// Truncate replaces os.Truncate.
func Truncate(name string, size int64) error {
	d := cur()
	if d == nil {
		return os.Truncate(name, size)
	}
	f, err := OpenFile(name, os.O_WRONLY, 0)
	if err != nil {
		return err
	}
	defer f.Close()
	return f.Truncate(size)
}

// Chmod replaces os.Chmod.
func Chmod(name string, mode FileMode) error {
	d := cur()
	if d == nil {
		return os.Chmod(name, mode)
	}
	if ino := d.vol[filepath.Clean(name)]; ino != nil {
		ino.mode = mode
		return nil
	}
	return pathErr("chmod", name, syscall.ENOENT)
}

// The remaining file-system entry points are not simulated; inside a
// simulation with a disk attached they fail loudly instead of touching the
// real file system.
func unsupported(name string) error {
	if cur() != nil {
		panic("simos: os." + name + " is not simulated")
	}
	return nil
}

// Link replaces os.Link.
func Link(a, b string) error { unsupported("Link"); return os.Link(a, b) }

// Symlink replaces os.Symlink.
func Symlink(a, b string) error { unsupported("Symlink"); return os.Symlink(a, b) }

// Readlink replaces os.Readlink.
func Readlink(a string) (string, error) { unsupported("Readlink"); return os.Readlink(a) }

// Chown replaces os.Chown.
func Chown(n string, u, g int) error { unsupported("Chown"); return os.Chown(n, u, g) }

// Lchown replaces os.Lchown.
func Lchown(n string, u, g int) error { unsupported("Lchown"); return os.Lchown(n, u, g) }

// Chtimes replaces os.Chtimes.
func Chtimes(n string, a, m time.Time) error { unsupported("Chtimes"); return os.Chtimes(n, a, m) }

// Chdir replaces os.Chdir.
func Chdir(n string) error { unsupported("Chdir"); return os.Chdir(n) }

// SameFile replaces os.SameFile.
func SameFile(a, b FileInfo) bool { return os.SameFile(a, b) }

// Standard streams.
var (
	Stdin  = &File{real: os.Stdin}
	Stdout = &File{real: os.Stdout}
	Stderr = &File{real: os.Stderr}
)

// ---- crash model ----

// PowerChoice selects one outcome of a power loss among those the model permits.
type PowerChoice struct {
	// DirMask selects which pending directory operations were persisted (bit i = i-th pending op).
	DirMask uint64
	// DataMode selects what happens to unsynced data: none | all | prefix | subset | zerofill.
	DataMode string
	// DataSeed drives prefix length / subset selection.
	DataSeed uint64
}

// PendingDirOps returns the number of directory operations not yet durable.
func (d *Disk) PendingDirOps() int { return len(d.pending) }

// PendingWrites returns the number of unsynced block writes over all live inodes.
func (d *Disk) PendingWrites() int {
	n := 0
	seen := map[*inode]bool{}
	for _, ino := range d.vol {
		if !seen[ino] {
			seen[ino] = true
			n += len(ino.writes)
		}
	}
	return n
}

// Reboot ends the current incarnation. With power == nil the process died but
// the machine kept running: the volatile state (page cache) survives as it is.
// With a PowerChoice the machine lost power: only durable state plus the chosen
// subset of unsynced updates survives.
func (d *Disk) Reboot(power *PowerChoice) {
	d.epoch++
	d.dead = false
	if power == nil {
		return
	}
	ns := map[string]*inode{}
	for k, v := range d.dur {
		ns[k] = v
	}
	for i, op := range d.pending {
		if power.DirMask&(1<<uint(i)) == 0 {
			continue
		}
		applyDirOp(ns, op)
	}
	seed := power.DataSeed
	next := func() uint64 {
		seed ^= seed << 13
		seed ^= seed >> 7
		seed ^= seed << 17
		if seed == 0 {
			seed = 0x9e3779b97f4a7c15
		}
		return seed
	}
	seen := map[*inode]bool{}
	for _, ino := range ns {
		if seen[ino] {
			continue
		}
		seen[ino] = true
		content := append([]byte(nil), ino.synced...)
		apply := func(w wr) {
			if w.trunc {
				if w.off < len(content) {
					content = content[:w.off]
				} else {
					content = append(content, make([]byte, w.off-len(content))...)
				}
				return
			}
			if need := w.off + len(w.data); need > len(content) {
				content = append(content, make([]byte, need-len(content))...)
			}
			copy(content[w.off:], w.data)
		}
		switch power.DataMode {
		case "all":
			for _, w := range ino.writes {
				apply(w)
			}
		case "prefix":
			if len(ino.writes) > 0 {
				k := int(next() % uint64(len(ino.writes)+1))
				for _, w := range ino.writes[:k] {
					apply(w)
				}
			}
		case "subset":
			for _, w := range ino.writes {
				if next()&1 == 1 {
					apply(w)
				}
			}
		case "zerofill":
			// size metadata persisted, data blocks not
			if len(ino.data) > len(content) {
				content = append(content, make([]byte, len(ino.data)-len(content))...)
			}
		default: // none
		}
		ino.data = content
		ino.synced = append([]byte(nil), content...)
		ino.writes = nil
	}
	d.vol = ns
	d.dur = map[string]*inode{}
	for k, v := range ns {
		d.dur[k] = v
	}
	d.pending = nil
}

// Snapshot returns the volatile content of a file (nil, false if absent).
func (d *Disk) Snapshot(path string) ([]byte, bool) {
	ino := d.vol[filepath.Clean(path)]
	if ino == nil {
		return nil, false
	}
	return append([]byte(nil), ino.data...), true
}

// Names lists the volatile namespace.
func (d *Disk) Names() []string {
	var out []string
	for p := range d.vol {
		out = append(out, p)
	}
	sort.Strings(out)
	return out
}

// Put installs a file as fully durable content (test set-up, stale temp files).
func (d *Disk) Put(path string, data []byte, durable bool) {
	path = filepath.Clean(path)
	d.nextIno++
	ino := &inode{id: d.nextIno, data: append([]byte(nil), data...), mode: 0666}
	d.vol[path] = ino
	if durable {
		ino.synced = append([]byte(nil), data...)
		d.dur[path] = ino
	} else {
		ino.writes = []wr{{off: 0, data: append([]byte(nil), data...)}}
		d.pending = append(d.pending, dirOp{dir: filepath.Dir(path), kind: "link", name: path, ino: ino})
	}
}
