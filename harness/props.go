package harness

import "testing"

// Property couples a plan generator with a plan executor (workload + oracle).
type Property struct {
	ID   string
	Gen  func(seed uint64, run int, tier string) *Plan
	Exec func(t *testing.T, plan *Plan) *Outcome
	// Sweep, if set, replaces random sampling in the thorough tier for part of
	// the budget (fault enumeration): it returns the plans derived from a base plan.
	Sweep func(t *testing.T, base *Plan) []*Plan
}

var registry = map[string]*Property{}

func register(p *Property) { registry[p.ID] = p }

