#!/bin/sh
# Seeded-change tooling (changes written by independent sub-agents, kept under /verif/seeded/<id>/).
#
#   tools/seeded.sh validate <dir> [demo-subdir]    confirm in a scratch worktree of /repo: with patch.diff the tree builds,
#                                                   the runnable suite passes and the demonstration fails; without it the
#                                                   demonstration passes
#   tools/seeded.sh run <dir> <Cxx> [budget] [tier] run one check against a scratch worktree of /repo with patch.diff applied
#                                                   (VERIF_REPO points the check at it; /repo itself is never modified, so
#                                                   background sweeps of the unchanged tree are not disturbed); evidence and
#                                                   replay files go to a throw-away directory
#
# Scratch worktrees live under /var/tmp and are removed before the script returns.
set -u
export GOFLAGS=-mod=mod GOPROXY=off GOSUMDB=off GOTOOLCHAIN=local CGO_ENABLED=0
GO=/opt/veriftools/go1.26.8/bin/go
MODE=$1; DIR=$(realpath "$2")
WT=$(mktemp -d /var/tmp/verif-seeded-XXXXXX)
cleanup() { git -C /repo worktree remove --force "$WT" >/dev/null 2>&1; rm -rf "$WT" "${T:-/nonexistent}"; git -C /repo worktree prune; }
trap cleanup EXIT INT TERM
rmdir "$WT"; git -C /repo worktree add -q --detach "$WT" HEAD || exit 3

# patches were written against the /repo commit of their wave; later fix: commits may have moved their context
apply_patch() {
  git -C "$WT" apply "$DIR/patch.diff" 2>/dev/null && return 0
  git -C "$WT" apply --3way "$DIR/patch.diff" >/dev/null 2>&1 || return 1
  if git -C "$WT" diff --name-only --diff-filter=U | grep -q .; then return 1; fi
  git -C "$WT" reset -q
  return 0
}

case "$MODE" in
validate)
  # the demonstration goes into a new sub-directory package (the test packages of the repository root need a
  # MongoDB server in init()), unless an existing package directory such as dbkit is named
  SUB=${3:-seeddemo}
  DEMOS=$(ls "$DIR"/*_test.go 2>/dev/null)
  [ -n "$DEMOS" ] || { echo "no demonstration test in $DIR"; exit 3; }
  mkdir -p "$WT/$SUB"
  cp $DEMOS "$WT/$SUB/"
  NAMES=$(grep -ho '^func Test[A-Za-z0-9_]*' $DEMOS | sed 's/func //' | paste -sd'|')
  echo "demonstration tests: $NAMES (in $SUB)"
  (cd "$WT/$SUB" && $GO test -vet=off -count=1 -run "^($NAMES)\$" . >"$WT/.clean.log" 2>&1); C=$?
  echo "clean tree: demonstration exit $C"
  apply_patch || { echo "patch does not apply"; exit 3; }
  (cd "$WT" && $GO build ./... && $GO test -vet=off -count=1 -exec true ./... >/dev/null 2>&1 && $GO test -vet=off -count=1 ./bsonkit/... ./dbkit/... >"$WT/.suite.log" 2>&1); S=$?
  echo "patched tree: build + runnable suite exit $S"
  (cd "$WT/$SUB" && $GO test -vet=off -count=1 -run "^($NAMES)\$" . >"$WT/.patched.log" 2>&1); P=$?
  echo "patched tree: demonstration exit $P"
  grep -E "^(---|FAIL|ok|panic)" "$WT/.patched.log" | head -5
  if [ $C -eq 0 ] && [ $S -eq 0 ] && [ $P -ne 0 ]; then echo "VALID"; exit 0; fi
  echo "INVALID"; [ $C -ne 0 ] && tail -20 "$WT/.clean.log"; [ $S -ne 0 ] && tail -20 "$WT/.suite.log"; exit 1
  ;;
run)
  PROP=$3; B=${4:-40}; TIER=${5:-quick}
  apply_patch || { echo "patch does not apply"; exit 3; }
  T=$(mktemp -d /var/tmp/verif-seeded-out-XXXXXX)
  cd /verif && VERIF_REPO="$WT" VERIF_EVIDENCE_DIR=$T/evidence VERIF_REPLAY_DIR=$T/replays VERIF_SEED=${VERIF_SEED:-1} \
    ./verif check "$PROP" --tier "$TIER" --budget "$B" 2>&1 | grep -a -E "^(C[0-9]+ |violation|VIOLATION|VERIF-FAULT|KNOWN|NOTE|worker|HARNESS)" | cut -c1-900 | head -${SEEDED_LINES:-12}
  ;;
*) echo "usage: seeded.sh validate|run <dir> ..."; exit 3;;
esac
