package harness

import (
	"testing"
)

// C01 - CRUD through the driver API matches a sequential MongoDB reference model.

func init() {
	register(&Property{ID: "C01", Gen: genC01, Exec: func(t *testing.T, p *Plan) *Outcome {
		return execSeq(t, p, seqHooks{prop: "C01", model: true})
	}})
}

func seqCfg(r interface{ IntN(int) int }) Cfg {
	return Cfg{
		Store:    pick(r, "mem", "mem", "file"),
		Strategy: pick(r, "random", "sticky", "rr"),
		ExpireMs: pick(r, int64(50), 1000, 60000),
		StallS:   100000,
	}
}

func genC01(seed uint64, run int, tier string) *Plan {
	r := newRNG(seed, 1)
	g := newGen(r)
	p := &Plan{Prop: "C01", Seed: seed, Run: run, Cfg: seqCfg(r)}
	if r.IntN(3) == 0 {
		g.colls = []string{"c0"}
	}
	g.ids = 3 + r.IntN(4)
	n := 1 + r.IntN(12)
	if r.IntN(8) == 0 {
		n = 12 + r.IntN(18)
	}
	n = deepen(tier, seed, n)
	tp := TaskPlan{Name: "client"}
	tp.Ops = append(tp.Ops, g.seedOps(80)...)
	if r.IntN(10) == 0 {
		// a larger collection (generated ids, many ties under every sort key): orderings, windows and
		// sorted one-document writes over more than a handful of documents
		db, c := g.coll()
		op := Op{K: "insertMany", DB: db, C: c, Ordered: true}
		for k := 13 + r.IntN(28); k > 0; k-- {
			op.Docs = append(op.Docs, jd(g.doc(false)))
		}
		tp.Ops = append(tp.Ops, op)
	}
	for i := 0; i < n; i++ {
		op := g.crud()
		if op.TTL != nil {
			big := int32(100000000)
			op.TTL = &big
		}
		tp.Ops = append(tp.Ops, op)
		if r.IntN(6) == 0 {
			tp.Ops = append(tp.Ops, Op{K: "sleep", Ms: int64(1 + r.IntN(int(p.Cfg.ExpireMs)*3))})
		}
		if p.Cfg.Store == "file" && r.IntN(15) == 0 {
			tp.Ops = append(tp.Ops, Op{K: "restart"})
		}
	}
	p.Tasks = []TaskPlan{tp}
	return p
}
