package harness

import (
	"bytes"
	"context"
	"errors"
	"fmt"
	"io"
	"sort"
	"strings"
	"testing"
	"time"

	"github.com/256dpi/lungo"
	"github.com/256dpi/lungo/verifsim/simrt"
	"go.mongodb.org/mongo-driver/bson"
	"go.mongodb.org/mongo-driver/bson/primitive"
	"go.mongodb.org/mongo-driver/mongo/options"
)

// C18 - GridFS returns the bytes that were uploaded, at any offset; aborted
// uploads and deleted files leave no chunks behind.
//
// Every uploader task owns one file id and walks it through a seeded life cycle
// (open, fragmented writes, suspend/resume, close, claim, abort, delete, cleanup,
// download scripts) on a bucket object shared with the other tasks, while the
// scheduler interleaves the tasks, a janitor task runs Cleanup and reader tasks
// run download scripts over a file uploaded before the tasks start. The oracle
// is the content function gfsByte, an in-memory bytes.Reader and the documents
// of <bucket>.files/.chunks/.markers in the engine's committed catalog.

func init() {
	register(&Property{ID: "C18", Gen: genC18, Exec: execC18})
}

const gfsBuf = 16 * 1024 * 1024 // size of the driver's upload buffer (gridfs.UploadBufferSize); only used to aim sizes at it

var errGfsReader = errors.New("injected reader failure")
var errGfsWriter = errors.New("injected writer failure")

// gfsByte is the content of file id at absolute offset off.
func gfsByte(id int, off int) byte {
	x := uint32(off)*2654435761 + uint32(id)*40503
	return byte(x>>24) ^ byte(off) ^ byte(off>>8)*31
}

func gfsContent(id, from, n int) []byte {
	b := make([]byte, n)
	for i := range b {
		b[i] = gfsByte(id, from+i)
	}
	return b
}

// genC18Aging: tracked uploads that take simulated seconds (suspended, resumed, closed and claimed with pauses)
// while a janitor runs Cleanup with an age of the same order. Cleanup may collect an upload whose marker has not
// been touched for that long - the uploader then fails, which is not judged - but an upload whose Close succeeded
// at time T stays until a Cleanup that runs at T + age or later.
func genC18Aging(seed uint64, run int) *Plan {
	r := newRNG(seed, 181)
	p := &Plan{Prop: "C18", Seed: seed, Run: run}
	p.Cfg = Cfg{Store: "mem", Strategy: pick(r, "random", "random", "pct", "sticky"), PCTDepth: 1 + r.IntN(3), ExpireMs: 60000, Variant: "aging"}
	age := pick(r, int64(1000), 2500)
	// all pauses on one grid of age/2: uploader steps and Cleanup calls then often fall on the same simulated
	// instant, where only the scheduler decides their order (a marker exactly age old is not yet stale)
	pause := func() int64 { return pick(r, int64(0), int64(0), age/2, age, 3*age/2, 2*age) }
	for ti, n := 0, 1+r.IntN(2); ti < n; ti++ {
		cs := pick(r, 3, 8, 16)
		tp := TaskPlan{Name: fmt.Sprintf("up%d", ti), Role: "uploader"}
		add := func(op Op) { op.C = "tr"; op.Limit = cs; tp.Ops = append(tp.Ops, op) }
		sleep := func() {
			if ms := pause(); ms > 0 {
				add(Op{K: "sleep", Ms: ms})
			}
		}
		add(Op{K: "gfs.open"})
		written := 0
		for k := 1 + r.IntN(3); k > 0; k-- {
			w := pick(r, 1, cs, cs+1, 2*cs)
			add(Op{K: "gfs.write", N: w})
			written += w
			if r.IntN(2) == 0 {
				add(Op{K: "gfs.suspend"})
				sleep()
				add(Op{K: "gfs.resume"})
				if lost := written % cs; lost > 0 {
					add(Op{K: "gfs.write", N: lost})
				}
			} else {
				sleep()
			}
		}
		add(Op{K: "gfs.close"})
		sleep()
		add(Op{K: "gfs.claim"})
		add(Op{K: "gfs.download", Items: []Op{{K: "read", N: cs + 1}}})
		p.Tasks = append(p.Tasks, tp)
	}
	j := TaskPlan{Name: "janitor", Role: "janitor"}
	for n := 2 + r.IntN(3); n > 0; n-- {
		j.Ops = append(j.Ops, Op{K: "sleep", Ms: pick(r, age/2, age, 3*age/2)})
		j.Ops = append(j.Ops, Op{K: "gfs.cleanup", C: "tr", Ms: age})
	}
	p.Tasks = append(p.Tasks, j)
	return p
}

func genC18(seed uint64, run int, tier string) *Plan {
	switch k := newRNG(seed, 0x181).IntN(100); {
	case k < 10:
		return genC18Aging(seed, run)
	case k < 18:
		return genC18Shared(seed, run)
	}
	r := newRNG(seed, 18)
	p := &Plan{Prop: "C18", Seed: seed, Run: run}
	p.Cfg = Cfg{
		Store:    "mem",
		Strategy: pick(r, "random", "random", "pct", "sticky", "nonpreempt", "rr"),
		PCTDepth: 1 + r.IntN(3),
		ExpireMs: 60000,
	}
	big := false
	if tier == "thorough" {
		big = r.IntN(25) == 0
	} else {
		big = r.IntN(120) == 0
	}
	ntasks := 1 + r.IntN(3)
	if big {
		ntasks = 1
		p.Cfg.Variant = "big"
	} else {
		p.Cfg.Fine = fineKnob(seed, 15, 3)
	}
	sizes := func() (cs, length int) {
		if big {
			cs = pick(r, 1<<20, 1<<20+1, 3<<20, 4<<20-3, 5<<20+7, 1<<22)
			length = gfsBuf + pick(r, -1, 0, 1, cs-1, cs, cs+1, -cs, 2*cs+3, 17)
			if tier == "thorough" && r.IntN(4) == 0 {
				length += gfsBuf
			}
			return
		}
		cs = pick(r, 1, 2, 3, 5, 7, 8, 16, 64, 255, 256, 1000)
		length = r.IntN(6)*cs + pick(r, -1, 0, 0, 1, cs/2)
		if length < 0 {
			length = 0
		}
		return
	}
	// partition splits n bytes into write sizes
	partition := func(n, cs int) []int {
		var parts []int
		for n > 0 {
			var k int
			switch r.IntN(6) {
			case 0:
				k = 1
			case 1:
				k = cs
			case 2:
				k = cs + pick(r, -1, 1)
			case 3:
				k = n
			case 4:
				k = 1 + r.IntN(2*cs+1)
			default:
				k = 1 + r.IntN(n)
			}
			if big && r.IntN(3) > 0 {
				// aim at the buffer boundary
				k = pick(r, gfsBuf-5, gfsBuf, gfsBuf+1, 3, 7, n, 1+r.IntN(n))
			}
			if k < 1 {
				k = 1
			}
			if k > n {
				k = n
			}
			if r.IntN(12) == 0 {
				parts = append(parts, 0)
			}
			parts = append(parts, k)
			n -= k
		}
		return parts
	}
	script := func(cs, length int) []Op {
		var items []Op
		for n := 1 + r.IntN(8); n > 0; n-- {
			near := func() int {
				base := 0
				if length > 0 {
					base = pick(r, 0, length, (r.IntN(length)/cs)*cs, r.IntN(length+1))
				}
				return base + pick(r, -1, 0, 0, 1, cs)
			}
			switch r.IntN(7) {
			case 0, 1, 2:
				items = append(items, Op{K: "read", N: pick(r, 0, 1, cs-1, cs, cs+1, 2*cs+1, 1+r.IntN(3*cs+2), length+3)})
			case 3:
				items = append(items, Op{K: "skip", N: pick(r, 0, 1, -1, cs, -cs, r.IntN(length+2), -r.IntN(length+2))})
			case 4:
				items = append(items, Op{K: "seek", N: near(), Skip: io.SeekStart})
			case 5:
				items = append(items, Op{K: "seek", N: pick(r, 0, -1, 1, -cs, -length, -length-1, -r.IntN(length+1)), Skip: io.SeekEnd})
			default:
				items = append(items, Op{K: "seek", N: pick(r, 0, 1, -1, cs, -cs, r.IntN(length+1)), Skip: io.SeekCurrent})
			}
		}
		if big {
			for i := range items {
				if items[i].K == "read" && items[i].N > 1<<16 {
					items[i].N = 1 << 16
				}
			}
		}
		return items
	}
	downloads := func(cs, length int) []Op {
		var ops []Op
		for n := 1 + r.IntN(2); n > 0; n-- {
			if r.IntN(4) == 0 {
				op := Op{K: "gfs.toStream", Parts: []int{1 + r.IntN(2*cs+3)}, N: -1}
				if r.IntN(3) == 0 {
					op.N = r.IntN(length + 1) // the writer fails after N bytes
				}
				ops = append(ops, op)
			} else {
				ops = append(ops, Op{K: "gfs.download", Items: script(cs, length)})
			}
		}
		return ops
	}
	for ti := 0; ti < ntasks; ti++ {
		cs, length := sizes()
		tracked := r.IntN(2) == 0
		tp := TaskPlan{Name: fmt.Sprintf("up%d", ti), Role: "uploader"}
		mode := "fs"
		if tracked {
			mode = "tr"
		}
		add := func(op Op) { op.C = mode; op.Limit = cs; tp.Ops = append(tp.Ops, op) }
		if r.IntN(5) == 0 {
			// upload from a reader
			op := Op{K: "gfs.fromStream", N: length, Parts: partition(max(length, 1), cs), End: pick(r, "eof", "eof", "eof-with-data", "error")}
			if op.End == "error" {
				op.Skip = r.IntN(length + 1)
			}
			add(op)
			if tracked && op.End != "error" {
				add(Op{K: "gfs.claim"})
			}
		} else {
			add(Op{K: "gfs.open"})
			parts := partition(length, cs)
			written := 0
			for _, k := range parts {
				add(Op{K: "gfs.write", N: k})
				written += k
				if tracked && !big && r.IntN(6) == 0 && written > 0 {
					add(Op{K: "gfs.suspend"})
					if r.IntN(3) == 0 {
						add(Op{K: "sleep", Ms: int64(1 + r.IntN(50))})
					}
					add(Op{K: "gfs.resume"})
					// the suspended tail is written again: top the script up
					lost := written % cs
					if lost > 0 {
						add(Op{K: "gfs.write", N: lost})
					}
				}
			}
			if r.IntN(6) == 0 {
				add(Op{K: "gfs.abort"})
			} else {
				add(Op{K: "gfs.close", N: r.IntN(2)})
				if tracked {
					if r.IntN(8) == 0 {
						add(Op{K: "gfs.delete"})
					} else {
						add(Op{K: "gfs.claim"})
					}
				}
			}
		}
		if !tracked && !big && r.IntN(6) == 0 {
			// a second upload under the id of the stored file: refused, and the stored file stays as it is
			add(Op{K: "gfs.reupload", N: pick(r, 1, cs, 2*cs+1)})
		}
		for _, op := range downloads(cs, length) {
			add(op)
		}
		if r.IntN(3) == 0 {
			add(Op{K: "gfs.delete"})
			if r.IntN(3) == 0 {
				add(Op{K: "gfs.download", Items: []Op{{K: "read", N: 1}}})
			}
		}
		p.Tasks = append(p.Tasks, tp)
	}
	if !big {
		// the file uploaded before the tasks start, and its readers
		cs, length := sizes()
		if length == 0 {
			length = cs + 1
		}
		p.Cfg.BlockSize = cs // chunk size of the shared file
		p.Cfg.Dirs = length  // length of the shared file
		for n := r.IntN(3); n > 0; n-- {
			tp := TaskPlan{Name: fmt.Sprintf("reader%d", n), Role: "reader"}
			for _, op := range downloads(cs, length) {
				op.C, op.Limit = "fs", cs
				tp.Ops = append(tp.Ops, op)
			}
			p.Tasks = append(p.Tasks, tp)
		}
		if r.IntN(2) == 0 {
			tp := TaskPlan{Name: "janitor", Role: "janitor"}
			for n := 1 + r.IntN(3); n > 0; n-- {
				tp.Ops = append(tp.Ops, Op{K: "gfs.cleanup", C: "tr"})
				if r.IntN(2) == 0 {
					tp.Ops = append(tp.Ops, Op{K: "yield"})
				}
			}
			p.Tasks = append(p.Tasks, tp)
		}
		switch r.IntN(4) {
		case 0:
			p.Faults = append(p.Faults, Fault{Kind: pick(r, "store-before", "store-after"), At: r.IntN(14)})
		case 1:
			p.Faults = append(p.Faults, Fault{Kind: "store-latency", At: r.IntN(14), Ms: int64(1 + r.IntN(100))})
		}
	}
	return p
}

// gfsFile is the life-cycle state of one file id as the uploader task knows it.
type gfsFile struct {
	id      int
	cs      int
	bucket  string
	tracked bool
	stream  *lungo.UploadStream
	state   string // "" | open | suspended | uploaded | complete | gone | unknown
	off     int    // bytes of the content accepted so far
	marker  bool   // a marker document must exist (tracked)
}

type gfsRun struct {
	e       *Env
	buckets map[string]*lungo.Bucket

	// aging variant
	aging      bool
	cleanupAge time.Duration // age of the janitor's Cleanup call in flight or last made (0: none yet)
	janitor    *simrt.Task
	collected  map[int]bool // files whose closed upload a Cleanup legitimately took (old enough)
}

func (g *gfsRun) docs(bucket, coll string, field string, id int) []bson.D {
	cat := g.e.engine.Catalog()
	c := cat.Namespaces[lungo.Handle{"db", bucket + "." + coll}]
	if c == nil {
		return nil
	}
	var out []bson.D
	for _, d := range c.Documents.List {
		dd := toD(d)
		for _, el := range dd {
			if el.Key == field {
				if v, ok := el.Value.(int32); ok && int(v) == id {
					out = append(out, dd)
				}
			}
		}
	}
	return out
}

func gfsGet(d bson.D, key string) any {
	for _, el := range d {
		if el.Key == key {
			return el.Value
		}
	}
	return nil
}

func gfsInt(v any) (int, bool) {
	switch x := v.(type) {
	case int32:
		return int(x), true
	case int64:
		return int(x), true
	}
	return 0, false
}

// checkStored verifies the documents of a completed upload.
func (g *gfsRun) checkStored(f *gfsFile, what string) bool {
	e := g.e
	files := g.docs(f.bucket, "files", "_id", f.id)
	if len(files) != 1 {
		e.violate(violation("C18", "file-record", "missing", fmt.Sprintf("%s: file %d of bucket %s has %d file records", what, f.id, f.bucket, len(files))))
		return false
	}
	if n, ok := gfsInt(gfsGet(files[0], "length")); !ok || n != f.off {
		e.violate(violation("C18", "file-record", "length", fmt.Sprintf("%s: file %d (chunk size %d) was uploaded with %d bytes but its record states length %v", what, f.id, f.cs, f.off, gfsGet(files[0], "length"))))
		return false
	}
	if n, ok := gfsInt(gfsGet(files[0], "chunkSize")); !ok || n != f.cs {
		e.violate(violation("C18", "file-record", "chunk-size", fmt.Sprintf("%s: file %d was uploaded with chunk size %d but its record states %v", what, f.id, f.cs, gfsGet(files[0], "chunkSize"))))
		return false
	}
	return g.checkChunks(f, what, f.off, true)
}

// checkChunks verifies the chunk documents: numbered 0..n-1, all but the last
// full, concatenation equal to the first total bytes of the content.
func (g *gfsRun) checkChunks(f *gfsFile, what string, total int, final bool) bool {
	e := g.e
	chunks := g.docs(f.bucket, "chunks", "files_id", f.id)
	sort.SliceStable(chunks, func(i, j int) bool {
		a, _ := gfsInt(gfsGet(chunks[i], "n"))
		b, _ := gfsInt(gfsGet(chunks[j], "n"))
		return a < b
	})
	want := (total + f.cs - 1) / f.cs
	if len(chunks) != want {
		e.violate(violation("C18", "chunks", "count", fmt.Sprintf("%s: file %d (%d bytes, chunk size %d) has %d chunks, expected %d", what, f.id, total, f.cs, len(chunks), want)))
		return false
	}
	pos := 0
	for i, c := range chunks {
		if n, ok := gfsInt(gfsGet(c, "n")); !ok || n != i {
			e.violate(violation("C18", "chunks", "numbering", fmt.Sprintf("%s: chunk %d of file %d is numbered %v", what, i, f.id, gfsGet(c, "n"))))
			return false
		}
		bin, ok := gfsGet(c, "data").(primitive.Binary)
		if !ok {
			e.violate(violation("C18", "chunks", "data-type", fmt.Sprintf("%s: chunk %d of file %d has data of type %T", what, i, f.id, gfsGet(c, "data"))))
			return false
		}
		size := f.cs
		if i == len(chunks)-1 {
			size = total - pos
		}
		if len(bin.Data) != size {
			e.violate(violation("C18", "chunks", "size", fmt.Sprintf("%s: chunk %d of %d of file %d (%d bytes, chunk size %d) holds %d bytes, expected %d", what, i, len(chunks), f.id, total, f.cs, len(bin.Data), size)))
			return false
		}
		for k, b := range bin.Data {
			if b != gfsByte(f.id, pos+k) {
				e.violate(violation("C18", "chunks", "content", fmt.Sprintf("%s: byte %d of file %d (chunk %d offset %d, chunk size %d) differs from the uploaded content", what, pos+k, f.id, i, k, f.cs)))
				return false
			}
		}
		pos += size
	}
	return true
}

// checkNothing verifies that no trace of the file is left.
func (g *gfsRun) checkNothing(f *gfsFile, what string) bool {
	e := g.e
	if n := len(g.docs(f.bucket, "chunks", "files_id", f.id)); n > 0 {
		e.violate(violation("C18", "orphan-chunks", "", fmt.Sprintf("%s: %d chunks of file %d are left in bucket %s", what, n, f.id, f.bucket)))
		return false
	}
	if n := len(g.docs(f.bucket, "files", "_id", f.id)); n > 0 {
		e.violate(violation("C18", "orphan-file", "", fmt.Sprintf("%s: the file record of file %d is left in bucket %s", what, f.id, f.bucket)))
		return false
	}
	if n := len(g.docs(f.bucket, "markers", "files_id", f.id)); n > 0 {
		e.violate(violation("C18", "orphan-marker", "", fmt.Sprintf("%s: a marker of file %d is left in bucket %s", what, f.id, f.bucket)))
		return false
	}
	return true
}

func uploadOpts(cs int) *options.UploadOptions {
	return options.GridFSUpload().SetChunkSizeBytes(int32(cs))
}

// gfsReader is the simulated source of UploadFromStream.
type gfsReader struct {
	id, total, pos int
	parts          []int
	i              int
	end            string
	failAt         int
}

func (r *gfsReader) Read(p []byte) (int, error) {
	simrt.Yield("gfs:reader")
	if r.end == "error" && r.pos >= r.failAt {
		return 0, errGfsReader
	}
	if r.pos >= r.total {
		return 0, io.EOF
	}
	n := len(p)
	if len(r.parts) > 0 {
		k := r.parts[r.i%len(r.parts)]
		r.i++
		if k < n {
			n = k
		}
	}
	if n > r.total-r.pos {
		n = r.total - r.pos
	}
	if r.end == "error" && n > r.failAt-r.pos {
		n = r.failAt - r.pos
	}
	for i := 0; i < n; i++ {
		p[i] = gfsByte(r.id, r.pos+i)
	}
	r.pos += n
	if r.end == "eof-with-data" && r.pos == r.total {
		return n, io.EOF
	}
	return n, nil
}

// gfsWriter is the simulated sink of DownloadToStream.
type gfsWriter struct {
	buf    bytes.Buffer
	failAt int
}

func (w *gfsWriter) Write(p []byte) (int, error) {
	simrt.Yield("gfs:writer")
	if w.failAt >= 0 && w.buf.Len()+len(p) > w.failAt {
		k := w.failAt - w.buf.Len()
		w.buf.Write(p[:k])
		return k, errGfsWriter
	}
	w.buf.Write(p)
	return len(p), nil
}

func isInjected(err error) bool { return err != nil && classifyErr(err) == "store-fault" }

// upload-phase failure caused by an injected store fault: abort, nothing may remain.
func (g *gfsRun) abortAfterFault(f *gfsFile, what string) {
	e := g.e
	e.probe("upload-failed-by-store-fault")
	if f.stream == nil {
		f.state = "unknown"
		return
	}
	err := f.stream.Abort()
	e.logf("[file %d] abort after fault -> %v", f.id, err)
	if err != nil {
		e.violate(violation("C18", "abort-failed", "", fmt.Sprintf("%s failed by an injected store failure; the following Abort of file %d failed: %v", what, f.id, err)))
		return
	}
	if g.checkNothing(f, what+" failed by an injected store failure, then Abort") {
		e.probe("abort-after-fault-clean")
	}
	f.state, f.stream, f.marker = "gone", nil, false
}

// step runs one operation of a task's script. In the aging variant a tracked upload may legitimately be
// collected by a Cleanup under the uploader's feet; whatever the uploader then reports is not judged (only the
// commit-level rule "a closed upload stays until a Cleanup that runs age later" is), and the file is left alone.
func (g *gfsRun) step(f *gfsFile, op *Op, shared bool) {
	if g.aging && f.tracked && f.id >= 0 {
		before := g.e.out.Violation
		g.step1(f, op, shared)
		if v := g.e.out.Violation; v != before && v != nil && v.Class != "cleanup-collected-fresh-upload" && g.cleanupAge > 0 {
			g.e.logf("[file %d] not judged (a Cleanup with a small age has run): %s", f.id, v.Signature)
			g.e.out.Violation = before
			g.e.probe("aging-upload-not-judged")
			f.state, f.stream = "unknown", nil
		}
		return
	}
	g.step1(f, op, shared)
}

func (g *gfsRun) step1(f *gfsFile, op *Op, shared bool) {
	e := g.e
	ctx := context.Background()
	b := g.buckets[f.bucket]
	skip := func() { e.logf("[file %d] %s skipped in state %q", f.id, op.K, f.state) }
	unexpected := func(what string, err error) {
		e.violate(violation("C18", "unexpected-error", op.K, fmt.Sprintf("%s of file %d (chunk size %d, %d bytes so far, bucket %s) failed: %v", what, f.id, f.cs, f.off, f.bucket, err)))
	}
	switch op.K {
	case "sleep":
		time.Sleep(time.Duration(op.Ms) * time.Millisecond)
		simrt.Yield("gfs:wake")
	case "yield":
		simrt.Yield("gfs:yield")
	case "gfs.open":
		if f.state != "" {
			skip()
			return
		}
		s, err := b.OpenUploadStreamWithID(ctx, int32(f.id), fmt.Sprintf("f%d", f.id), uploadOpts(f.cs))
		e.logf("[file %d] open cs=%d bucket=%s -> %v", f.id, f.cs, f.bucket, err)
		if isInjected(err) {
			f.state = "unknown" // index creation failed; nothing was uploaded
			return
		}
		if err != nil {
			unexpected("OpenUploadStreamWithID", err)
			return
		}
		f.stream, f.state = s, "open"
	case "gfs.write":
		if f.state != "open" {
			skip()
			return
		}
		n, err := f.stream.Write(gfsContent(f.id, f.off, op.N))
		e.logf("[file %d] write %d at %d -> %d %v", f.id, op.N, f.off, n, err)
		if isInjected(err) {
			g.abortAfterFault(f, "Write")
			return
		}
		if err != nil || n != op.N {
			e.violate(violation("C18", "write-result", "", fmt.Sprintf("Write of %d bytes at offset %d of file %d returned (%d, %v)", op.N, f.off, f.id, n, err)))
			return
		}
		f.off += n
	case "gfs.suspend":
		if f.state != "open" || !f.tracked {
			skip()
			return
		}
		n, err := f.stream.Suspend()
		e.logf("[file %d] suspend at %d -> %d %v", f.id, f.off, n, err)
		if isInjected(err) {
			g.abortAfterFault(f, "Suspend")
			return
		}
		if err != nil {
			unexpected("Suspend", err)
			return
		}
		want := (f.off / f.cs) * f.cs
		if int(n) != want {
			e.violate(violation("C18", "suspend-offset", "", fmt.Sprintf("Suspend of file %d after %d bytes with chunk size %d returned %d, expected %d (the fully buffered chunks)", f.id, f.off, f.cs, n, want)))
			return
		}
		if f.off > 0 {
			f.marker = true
		}
		f.off = want
		f.state, f.stream = "suspended", nil
		if f.marker && !g.checkChunks(f, "after Suspend", f.off, false) {
			return
		}
		e.probe("suspended")
	case "gfs.resume":
		if f.state != "suspended" {
			skip()
			return
		}
		s, err := b.OpenUploadStreamWithID(ctx, int32(f.id), fmt.Sprintf("f%d", f.id), uploadOpts(f.cs))
		if err != nil {
			unexpected("OpenUploadStreamWithID (resume)", err)
			return
		}
		n, err := s.Resume()
		e.logf("[file %d] resume -> %d %v", f.id, n, err)
		if !f.marker {
			// nothing was ever flushed: there is nothing to resume, the upload starts over
			if err == nil && n != 0 {
				e.violate(violation("C18", "resume-offset", "", fmt.Sprintf("Resume of file %d, of which nothing was uploaded, returned %d", f.id, n)))
				return
			}
			f.stream, f.state, f.off = s, "open", 0
			if err != nil {
				f.stream, f.state = nil, ""
			}
			return
		}
		if err != nil {
			unexpected("Resume", err)
			return
		}
		if int(n) != f.off {
			e.violate(violation("C18", "resume-offset", "", fmt.Sprintf("Resume of file %d (chunk size %d) returned %d, Suspend had returned %d", f.id, f.cs, n, f.off)))
			return
		}
		f.stream, f.state = s, "open"
		e.probe("resumed")
	case "gfs.close":
		if f.state != "open" {
			skip()
			return
		}
		err := f.stream.Close()
		e.logf("[file %d] close at %d -> %v", f.id, f.off, err)
		if isInjected(err) && op.N == 1 && e.out.Faults["store-after"] == 0 {
			// nothing was persisted by the failed attempt and the stream is still open: closing again must
			// complete the upload exactly as if the first attempt had not happened
			err = f.stream.Close()
			e.logf("[file %d] close again -> %v", f.id, err)
			e.probe("close-retried")
			if err != nil {
				// the statement does not promise that a failed Close can be retried (today a tracked upload whose
				// marker insert was the failed write cannot: "unable to update marker"); an upload may fail, it
				// may never complete with wrong bytes, and Abort must still leave nothing behind
				e.probe("close-retry-failed")
				g.abortAfterFault(f, "Close (retried)")
				return
			}
		}
		if isInjected(err) {
			g.abortAfterFault(f, "Close")
			return
		}
		if err != nil {
			unexpected("Close", err)
			return
		}
		f.stream = nil
		if f.tracked {
			f.state, f.marker = "uploaded", true
			if !g.checkChunks(f, "after Close (tracked, unclaimed)", f.off, true) {
				return
			}
			if n := len(g.docs(f.bucket, "files", "_id", f.id)); n != 0 {
				e.violate(violation("C18", "file-record", "before-claim", fmt.Sprintf("tracked file %d has a file record before it was claimed", f.id)))
			}
			return
		}
		f.state = "complete"
		if g.checkStored(f, "after Close") {
			e.probe("upload-complete")
		}
	case "gfs.claim":
		if f.state != "uploaded" {
			skip()
			return
		}
		var err error
		if g.aging {
			// next to a Cleanup that may collect it, an upload is claimed the documented way: inside a transaction
			var sess lungo.ISession
			sess, err = e.client.StartSession()
			if err == nil {
				_, err = sess.WithTransaction(ctx, func(sc lungo.ISessionContext) (interface{}, error) {
					return nil, b.ClaimUpload(sc, int32(f.id))
				})
				sess.EndSession(ctx)
			}
		} else {
			err = b.ClaimUpload(ctx, int32(f.id))
		}
		e.logf("[file %d] claim -> %v", f.id, err)
		if isInjected(err) {
			// a claim interrupted between its two writes is outside the statement
			f.state = "unknown"
			return
		}
		if err != nil {
			unexpected("ClaimUpload", err)
			return
		}
		f.state, f.marker = "complete", false
		if !g.checkStored(f, "after ClaimUpload") {
			return
		}
		if n := len(g.docs(f.bucket, "markers", "files_id", f.id)); n != 0 {
			e.violate(violation("C18", "orphan-marker", "claimed", fmt.Sprintf("the marker of file %d is left after ClaimUpload", f.id)))
			return
		}
		e.probe("upload-complete")
		e.probe("claimed")
	case "gfs.abort":
		if f.state != "open" {
			skip()
			return
		}
		err := f.stream.Abort()
		e.logf("[file %d] abort at %d -> %v", f.id, f.off, err)
		if isInjected(err) {
			err = f.stream.Abort()
			e.logf("[file %d] abort again -> %v", f.id, err)
		}
		if err != nil {
			unexpected("Abort", err)
			return
		}
		f.stream, f.state, f.marker = nil, "gone", false
		if g.checkNothing(f, "after Abort") {
			e.probe("aborted-clean")
		}
	case "gfs.fromStream":
		if f.state != "" {
			skip()
			return
		}
		rd := &gfsReader{id: f.id, total: op.N, parts: op.Parts, end: op.End, failAt: op.Skip}
		err := b.UploadFromStreamWithID(ctx, int32(f.id), fmt.Sprintf("f%d", f.id), rd, uploadOpts(f.cs))
		e.logf("[file %d] fromStream %d bytes end=%s -> %v", f.id, op.N, op.End, err)
		if isInjected(err) {
			// the library gives the caller no handle to abort: outside the statement
			f.state = "unknown"
			return
		}
		if op.End == "error" {
			if !errors.Is(err, errGfsReader) {
				e.violate(violation("C18", "reader-error-lost", "", fmt.Sprintf("UploadFromStream of file %d whose reader failed after %d bytes returned %v", f.id, op.Skip, err)))
				return
			}
			f.state = "gone"
			if e.out.Faults["store-before"]+e.out.Faults["store-after"] > 0 {
				// the abort inside UploadFromStream may have been the call that was failed
				f.state = "unknown"
				return
			}
			if g.checkNothing(f, "after UploadFromStream with a failing reader") {
				e.probe("reader-error-clean")
			}
			return
		}
		if err != nil {
			unexpected("UploadFromStream", err)
			return
		}
		f.off = op.N
		if f.tracked {
			f.state, f.marker = "uploaded", true
			g.checkChunks(f, "after UploadFromStream (tracked, unclaimed)", f.off, true)
			return
		}
		f.state = "complete"
		if g.checkStored(f, "after UploadFromStream") {
			e.probe("upload-complete")
		}
	case "gfs.delete":
		if f.state != "complete" && !(f.tracked && f.state == "uploaded") {
			skip()
			return
		}
		err := b.Delete(ctx, int32(f.id))
		e.logf("[file %d] delete -> %v", f.id, err)
		if isInjected(err) {
			err = b.Delete(ctx, int32(f.id))
			e.logf("[file %d] delete again -> %v", f.id, err)
			if errors.Is(err, lungo.ErrFileNotFound) {
				err = nil // the first attempt had removed the record already
			}
		}
		if err != nil {
			unexpected("Delete", err)
			return
		}
		if f.tracked {
			err = b.Cleanup(ctx, 24*time.Hour)
			e.logf("[file %d] cleanup -> %v", f.id, err)
			if isInjected(err) {
				err = b.Cleanup(ctx, 24*time.Hour)
				e.logf("[file %d] cleanup again -> %v", f.id, err)
			}
			if err != nil {
				unexpected("Cleanup", err)
				return
			}
		}
		f.state, f.marker = "gone", false
		if g.checkNothing(f, "after Delete") {
			e.probe("deleted-clean")
		}
	case "gfs.reupload":
		if f.state != "complete" || f.tracked || f.off < 1 {
			skip()
			return
		}
		other := &gfsReader{id: f.id + 5000, total: op.N, end: "eof", parts: []int{op.N}}
		err := b.UploadFromStreamWithID(ctx, int32(f.id), fmt.Sprintf("f%d", f.id), other, uploadOpts(f.cs))
		e.logf("[file %d] upload of %d other bytes under the same id -> %v", f.id, op.N, err)
		if isInjected(err) {
			f.state = "unknown"
			return
		}
		if err == nil {
			e.violate(violation("C18", "reupload-accepted", "", fmt.Sprintf("a second upload under the id of stored file %d was accepted", f.id)))
			return
		}
		if g.checkStored(f, "after a refused second upload under the same id") {
			e.probe("reupload-refused-clean")
		}
	case "gfs.cleanup":
		age := 24 * time.Hour
		if op.Ms > 0 {
			age = time.Duration(op.Ms) * time.Millisecond
			g.cleanupAge = age
		}
		err := b.Cleanup(ctx, age)
		e.logf("[janitor] cleanup age=%v -> %v", age, err)
		if err != nil && !isInjected(err) {
			unexpected("Cleanup", err)
		}
	case "gfs.download":
		if f.state == "gone" && !shared {
			s, err := b.OpenDownloadStream(ctx, int32(f.id))
			e.logf("[file %d] open download of a removed file -> %v", f.id, err)
			if err == nil {
				s.Close()
			}
			if !errors.Is(err, lungo.ErrFileNotFound) {
				e.violate(violation("C18", "removed-file-readable", "", fmt.Sprintf("opening removed file %d returned %v", f.id, err)))
			}
			return
		}
		if f.state != "complete" {
			skip()
			return
		}
		g.download(f, op)
	case "gfs.toStream":
		if f.state != "complete" {
			skip()
			return
		}
		w := &gfsWriter{failAt: op.N}
		n, err := b.DownloadToStream(ctx, int32(f.id), w)
		e.logf("[file %d] toStream failAt=%d -> %d %v", f.id, op.N, n, err)
		want := gfsContent(f.id, 0, f.off)
		if op.N >= 0 && op.N < f.off {
			if !errors.Is(err, errGfsWriter) {
				e.violate(violation("C18", "writer-error-lost", "", fmt.Sprintf("DownloadToStream of file %d into a writer failing after %d bytes returned (%d, %v)", f.id, op.N, n, err)))
				return
			}
			if !bytes.Equal(w.buf.Bytes(), want[:op.N]) {
				e.violate(violation("C18", "download-bytes", "toStream-prefix", fmt.Sprintf("DownloadToStream of file %d wrote wrong bytes before the writer failed", f.id)))
			}
			return
		}
		if err != nil || int(n) != f.off || !bytes.Equal(w.buf.Bytes(), want) {
			e.violate(violation("C18", "download-bytes", "toStream", fmt.Sprintf("DownloadToStream of file %d (%d bytes, chunk size %d) returned (%d, %v) and wrote %d bytes, equal=%v", f.id, f.off, f.cs, n, err, w.buf.Len(), bytes.Equal(w.buf.Bytes(), want))))
			return
		}
		e.probe("download-to-stream")
	}
}

// download runs a read/skip/seek script on a download stream and on a
// bytes.Reader over the uploaded content and compares call by call.
func (g *gfsRun) download(f *gfsFile, op *Op) {
	e := g.e
	content := gfsContent(f.id, 0, f.off)
	ref := bytes.NewReader(content)
	s, err := g.buckets[f.bucket].OpenDownloadStream(context.Background(), int32(f.id))
	if err != nil {
		e.violate(violation("C18", "unexpected-error", "openDownload", fmt.Sprintf("OpenDownloadStream of file %d failed: %v", f.id, err)))
		return
	}
	defer s.Close()
	if file := s.GetFile(); file == nil || file.Length != f.off || file.ChunkSize != f.cs {
		e.violate(violation("C18", "file-record", "getfile", fmt.Sprintf("GetFile of file %d states %+v, uploaded were %d bytes with chunk size %d", f.id, file, f.off, f.cs)))
		return
	}
	pos := func() int { p, _ := ref.Seek(0, io.SeekCurrent); return int(p) }
	for i := range op.Items {
		it := &op.Items[i]
		at := pos()
		switch it.K {
		case "read":
			n := it.N
			if n < 0 {
				n = 0
			}
			got, want := make([]byte, n), make([]byte, n)
			gn, gerr := s.Read(got)
			wn, werr := ref.Read(want)
			e.logf("[file %d] read %d at %d -> %d %v", f.id, n, at, gn, gerr)
			if gn != wn || (gerr == io.EOF) != (werr == io.EOF) || (gerr != nil && gerr != io.EOF) {
				e.violate(violation("C18", "download-result", "read", fmt.Sprintf("Read(%d) at position %d of file %d (%d bytes, chunk size %d) returned (%d, %v), an in-memory reader returns (%d, %v)", n, at, f.id, f.off, f.cs, gn, gerr, wn, werr)))
				return
			}
			if !bytes.Equal(got[:gn], want[:wn]) {
				e.violate(violation("C18", "download-bytes", "read", fmt.Sprintf("Read(%d) at position %d of file %d (%d bytes, chunk size %d) returned bytes that differ from the uploaded content", n, at, f.id, f.off, f.cs)))
				return
			}
		case "skip", "seek":
			var gp, wp int64
			var gerr, werr error
			if it.K == "skip" {
				gp, gerr = s.Skip(int64(it.N))
				wp, werr = ref.Seek(int64(it.N), io.SeekCurrent)
			} else {
				gp, gerr = s.Seek(int64(it.N), it.Skip)
				wp, werr = ref.Seek(int64(it.N), it.Skip)
			}
			e.logf("[file %d] %s %d whence=%d at %d -> %d %v", f.id, it.K, it.N, it.Skip, at, gp, gerr)
			if (gerr != nil) != (werr != nil) || (gerr == nil && gp != wp) {
				e.violate(violation("C18", "download-result", "seek", fmt.Sprintf("%s(%d, whence %d) at position %d of file %d (%d bytes, chunk size %d) returned (%d, %v), an in-memory reader returns (%d, %v)", it.K, it.N, it.Skip, at, f.id, f.off, f.cs, gp, gerr, wp, werr)))
				return
			}
		}
	}
	// the rest of the stream from wherever the script ended
	rest, err := io.ReadAll(s)
	want, _ := io.ReadAll(ref)
	if err != nil || !bytes.Equal(rest, want) {
		e.violate(violation("C18", "download-bytes", "tail", fmt.Sprintf("reading file %d (%d bytes, chunk size %d) to the end after the script returned %d bytes (err %v), expected %d equal bytes", f.id, f.off, f.cs, len(rest), err, len(want))))
		return
	}
	e.probe("download-script")
}

// watchMarkers installs the commit-level rule of the aging variant: a marker that reached the state "uploaded"
// in the commit at time T (the upload's Close) may be flagged deleted or removed by the janitor's Cleanup only
// in a commit at T + age or later (Cleanup selects markers older than age). The uploader's own ClaimUpload and
// Delete are free to do so at any time.
func (g *gfsRun) watchMarkers() {
	e := g.e
	uploadedAt := map[string]time.Duration{}
	state := func(cat *lungo.Catalog) map[string]string {
		out := map[string]string{}
		if cat == nil {
			return out
		}
		if c := cat.Namespaces[lungo.Handle{"db", "tr.markers"}]; c != nil {
			for _, d := range c.Documents.List {
				dd := toD(d)
				st, _ := gfsGet(dd, "state").(string)
				fid, _ := gfsInt(gfsGet(dd, "files_id"))
				out[fmt.Sprintf("%s/file %d", valStr(gfsGet(dd, "_id")), fid)] = st
			}
		}
		return out
	}
	e.onCommit = append(e.onCommit, func(c *CommitRec) {
		prev, cur := state(c.Prev), state(c.Cat)
		for _, id := range sortedKeys(prev, cur) {
			if prev[id] != cur[id] {
				e.logf("  commit %d by %s at %v: marker %s %q -> %q", c.Seq, taskName(c.Task), c.At, id[strings.LastIndex(id, "/")+1:], prev[id], cur[id])
			}
		}
		for id, st := range cur {
			if st == "uploaded" && prev[id] != "uploaded" {
				uploadedAt[id] = c.At
			}
		}
		for id, st := range prev {
			if st != "uploaded" || cur[id] == "uploaded" {
				continue
			}
			if c.Task != nil && c.Task == g.janitor {
				if since := c.At - uploadedAt[id]; since < g.cleanupAge-2*time.Millisecond {
					e.violate(violation("C18", "cleanup-collected-fresh-upload", "", fmt.Sprintf("Cleanup(age %v) took marker %s of an upload that was closed only %v earlier (state now %q)", g.cleanupAge, id, since, cur[id])))
				} else {
					e.probe("cleanup-collected-old-upload")
					var fid int
					if _, err := fmt.Sscanf(id[strings.LastIndex(id, "/file ")+6:], "%d", &fid); err == nil {
						if g.collected == nil {
							g.collected = map[int]bool{}
						}
						g.collected[fid] = true
					}
				}
			}
		}
	})
}

func sortedKeys(ms ...map[string]string) []string {
	seen := map[string]bool{}
	var out []string
	for _, m := range ms {
		for k := range m {
			if !seen[k] {
				seen[k] = true
				out = append(out, k)
			}
		}
	}
	sort.Strings(out)
	return out
}

func execC18(t *testing.T, plan *Plan) *Outcome {
	switch plan.Cfg.Variant {
	case "sharedstream":
		return execC18Shared(t, plan)
	case "byname", "droprace":
		return execC18Named(t, plan)
	}
	return runPlan(t, plan, func(e *Env) {
		sim := e.sim
		g := &gfsRun{e: e, buckets: map[string]*lungo.Bucket{}, aging: plan.Cfg.Variant == "aging"}
		if g.aging {
			g.watchMarkers()
		}
		ok := false
		var files []*gfsFile
		sim.Go("setup", false, func(*simrt.Task) {
			if err := e.open(); err != nil {
				e.out.Harness = "open failed: " + err.Error()
				return
			}
			ok = true
			db := e.client.Database("db")
			g.buckets["fs"] = lungo.NewBucket(db, options.GridFSBucket().SetName("fs"))
			tr := lungo.NewBucket(db, options.GridFSBucket().SetName("tr"))
			tr.EnableTracking()
			g.buckets["tr"] = tr
			// the shared file of the reader tasks
			var shared *gfsFile
			if plan.Cfg.BlockSize > 0 && plan.Cfg.Dirs > 0 {
				shared = &gfsFile{id: 100, cs: plan.Cfg.BlockSize, bucket: "fs"}
				g.step(shared, &Op{K: "gfs.open"}, true)
				g.step(shared, &Op{K: "gfs.write", N: plan.Cfg.Dirs}, true)
				g.step(shared, &Op{K: "gfs.close"}, true)
			}
			if e.failed() {
				return
			}
			for i := range plan.Tasks {
				tp := plan.Tasks[i]
				var f *gfsFile
				switch tp.Role {
				case "uploader":
					f = &gfsFile{id: i}
					for _, op := range tp.Ops {
						if op.Limit > 0 {
							f.cs, f.bucket, f.tracked = op.Limit, op.C, op.C == "tr"
							break
						}
					}
					if f.cs == 0 {
						continue
					}
					files = append(files, f)
				case "reader":
					if shared == nil {
						continue
					}
					f = shared
				case "janitor":
					f = &gfsFile{id: -1, cs: 1, bucket: "tr", tracked: true}
				default:
					continue
				}
				isShared := tp.Role == "reader"
				isJanitor := tp.Role == "janitor"
				sim.Go(tp.Name, false, func(task *simrt.Task) {
					if isJanitor {
						g.janitor = task
					}
					for k := range tp.Ops {
						if e.failed() {
							return
						}
						g.step(f, &tp.Ops[k], isShared)
					}
				})
			}
		})
		sim.Run()
		if !ok || e.out.Harness != "" {
			return
		}
		e.out.Nontrivial = len(e.commits) > 0
		if sim.PanicVal != nil {
			e.violate(violation("C20", "panic", "", fmt.Sprintf("a task panicked: %v\n%s", sim.PanicVal, sim.PanicStack)))
			return
		}
		if sim.Deadlock != "" || sim.TimeOut || sim.StepsOut {
			e.violate(violation("C16", "deadlock", "stall", fmt.Sprintf("GridFS run did not finish: %s %s", sim.Deadlock, e.stallReport())))
			return
		}
		if e.failed() {
			return
		}
		// end of run: every file is where its life cycle left it, whatever the other tasks did meanwhile
		done := false
		sim.Go("final", false, func(*simrt.Task) {
			for _, f := range files {
				if g.collected[f.id] {
					// closed, not claimed in time, old enough: a Cleanup took it, and then took all of it
					if f.state == "uploaded" || f.state == "unknown" {
						g.checkNothing(f, "at the end of the run, after a Cleanup collected the closed upload")
					}
					continue
				}
				switch f.state {
				case "complete":
					g.checkStored(f, "at the end of the run")
				case "gone":
					g.checkNothing(f, "at the end of the run")
				case "uploaded":
					g.checkChunks(f, "at the end of the run (tracked, unclaimed)", f.off, true)
				}
			}
			done = true
		})
		sim.Run()
		if !done && !e.failed() {
			e.out.Harness = "final GridFS check did not finish"
		}
		if len(e.commits) > 0 {
			e.out.StateHash = hash64(len(e.commits), len(files))
		}
	})
}
