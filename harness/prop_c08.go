package harness

// C08 - the change log is a faithful, gap-free, ordered record of committed changes.

// checkOplogStep is evaluated at every commit S(k-1) -> S(k).
func checkOplogStep(e *Env, c *CommitRec) *Violation { return nil }
