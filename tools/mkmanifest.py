#!/usr/bin/env python3
"""Regenerates /verif/MANIFEST.json from the table below."""
import json, os

VERIF = os.path.dirname(os.path.dirname(os.path.abspath(__file__)))

NA = [
 ("C10", "pure function of (document, filter): no schedule, clock, fault, restart or interleaving for a simulator to vary (DESIGN.md 9.10)"),
 ("C11", "pure function of (document, update, array filters); its one clock read ($currentDate) is covered inside C01's model (DESIGN.md 9.11)"),
 ("C12", "pure function over pairs/triples of values; nothing for deterministic simulation to schedule or fault (DESIGN.md 9.12)"),
 ("C13", "pure function of (collection contents, query); no concurrency, time or I/O involved (DESIGN.md 9.13)"),
 ("C14", "pure function of (document, projection); the non-mutation clause for stored documents is covered by C03's snapshot monitor (DESIGN.md 9.14)"),
 ("C17", "statement about sequential programs (call, mutate argument or result, observe): no schedule, clock, fault or restart in it (DESIGN.md 9.17)"),
 ("C20", "robustness over an input space with no schedule, clock or fault dimension; the engine-stays-usable clause is decided under C16 (DESIGN.md 9.20)"),
]

SAMPLING = "sampling, not enumeration; the reference model covers the value/operator domain of DESIGN.md section 8 only; "

CHECKS = {
 "C01": ("exploration", "9.1",
   "seeded histories of driver calls (CRUD, bulk, upsert, find-one-and-modify, index and drop calls, sleeps, clean restarts on the simulated disk) executed against the instrumented current tree with the expiry goroutine alive; every call's result and the full contents/index definitions of every collection are compared with an independent sequential reference model after every call",
   SAMPLING + "fault-free configuration (one client), so the schedule dimension is the client vs. the engine's expiry goroutine only",
   "deterministic simulation: seeded call histories vs. executable reference model, checked call by call"),
 "C02": ("exploration", "9.2",
   "histories biased towards writes that fail part-way (k-th matched document, k-th batch item, index builds over conflicting data, injected store failures before/after persisting); after a failing single-item call the byte dump of every namespace incl. change log and index contents must equal the dump before; batches must equal the model's 'exactly the successful items' and grow the change log by exactly that many events",
   SAMPLING + "store faults are injected at the Store seam",
   "deterministic simulation: generated failing writes + store fault injection, before/after byte dumps and reference model"),
 "C07": ("exploration", "9.7",
   "collision-rich histories under unique / unique-partial / unique-multikey / unique-compound indexes, index builds over existing data, key shifts, restarts; invariant on every committed catalog: no two documents share a key tuple under a unique index (independent key extractor); exactness: a call is rejected for uniqueness iff the model's final state would contain such a pair",
   SAMPLING + "index keys on top-level fields, embedded-document paths and arrays of scalars",
   "deterministic simulation: per-commit invariant monitor + reference model exactness"),
 "C08": ("exploration", "9.8",
   "histories of writes, failed writes, drops, restarts and injected store failures with randomised retention settings while simulated time advances by fractions of a second up to days and the wall clock steps forwards/backwards; at every commit S(k-1)->S(k) from the store seam: the log is the earlier log minus a prefix plus appended events, ids strictly increasing and never reused in the run, replaying the appended events onto S(k-1) reproduces S(k), update descriptions applied to the previous version give the new version up to field order, no event without change, retention safety (min size / min age) and progress (max size / max age) with a 1.5 s tolerance around age boundaries",
   SAMPLING + "age clauses are evaluated with the log's own monotonic notion of time when the wall clock was stepped backwards; documented option defaults (100/1000, 5m/1h) are assumed when a plan leaves them unset",
   "deterministic simulation: simulated clock + per-commit replay oracle over the recorded commit history"),
 "C15": ("exploration", "9.15",
   "histories of CRUD and index-management calls incl. partial-filter transitions and multikey arity changes, failed calls, restarts; invariant on every committed catalog: each index lists exactly the documents matching its partial filter, once, in key order, and equals an index rebuilt from scratch; index management (idempotent create, conflicting create fails, _id index never dropped) compared with the model",
   SAMPLING + "the rebuilt-from-scratch comparison uses lungo's own index builder on the same documents",
   "deterministic simulation: per-commit invariant monitor + reference model for index management"),
 "C16": ("exploration", "9.16",
   "seeded search over interleavings (locks, blocking selects, store calls) and single faults of 2-4 actors mixing engine-, session- and driver-level calls, shared sessions, streams and shutdown; monitors: at most one writer, no panic, no lock cycle / stall, writer slot free again (probe write < 1 simulated second after faults stop), closed error after shutdown, no background goroutine left",
   "sampling, not enumeration; interleavings at lock/select/store granularity; token timeouts are not judged while a shared session may legitimately hold the slot or while the scheduler lets time pass freely (the end-of-run probe still decides leaks)",
   "deterministic simulation: PRNG scheduler over instrumented locks/selects + fault injection + bounded liveness probe"),
}

def main():
    checks = []
    for pid in sorted(CHECKS):
        level, ref, text, note, tech = CHECKS[pid]
        checks.append({
            "property_id": pid,
            "quick_cmd": "./verif check %s --tier quick" % pid,
            "thorough_cmd": "./verif check %s --tier thorough" % pid,
            "evidence_file": "/verif/evidence/%s.json" % pid,
            "replay_cmd_template": "./verif replay {path}",
            "engine": "lungo-dst",
            "level_claimed": {"category": level, "text": text, "design_ref": ref},
            "level_note": note,
            "technique": tech,
        })
    m = {
        "version": 1,
        "setup_cmd": "./verif setup",
        "hooks": {
            "guard": "none",
            "enable": "no hooks are committed to /repo: every check copies /repo's working tree to a scratch directory and instruments the copy (tools/instrument: sync/os/time imports -> verifsim shims, yields at blocking selects, seeded map ranges)",
            "baseline_off_cmd": "cd /repo && go test -mod=mod -json -vet=off -count=1 -timeout 25m ./...",
            "source_commits": [],
            "add_only": True,
        },
        "engines": [{
            "name": "lungo-dst", "path": "/verif", "serves_properties": sorted(CHECKS),
            "kind_free_text": "deterministic simulator: Go 1.26.8 testing/synctest bubble + own PRNG scheduler (sim/simrt), simulated locks (sim/simsync), disk (sim/simos), wall clock (sim/simtime); harness with reference model, plan generator, executor, minimiser (harness/); orchestrator ./verif",
        }],
        "checks": checks,
        "notes": "All checks rebuild from /repo's working tree (copy + instrument + go test -c) into a scratch directory under /tmp that is removed afterwards. Exit 2 = build/harness trouble, never a violation. Genuine defects found and repaired so far are listed in known_findings.jsonl (status fixed).",
        "not_applicable": [{"property_id": p, "reason": r} for p, r in NA],
    }
    claimed = set(CHECKS)
    assert not (claimed & {p for p, _ in NA})
    json.dump(m, open(os.path.join(VERIF, "MANIFEST.json"), "w"), indent=1)
    print("manifest: %d checks, %d not applicable" % (len(checks), len(NA)))

if __name__ == "__main__":
    main()
