module verif

go 1.26.0

require (
	github.com/256dpi/lungo v0.0.0
	github.com/anishathalye/porcupine v1.3.0
	go.mongodb.org/mongo-driver v1.17.9
	golang.org/x/tools v0.50.0
)

require (
	github.com/golang/snappy v0.0.4 // indirect
	github.com/klauspost/compress v1.16.7 // indirect
	github.com/montanaflynn/stats v0.7.1 // indirect
	github.com/shopspring/decimal v1.4.0 // indirect
	github.com/tidwall/btree v1.8.1 // indirect
	github.com/xdg-go/pbkdf2 v1.0.0 // indirect
	github.com/xdg-go/scram v1.1.2 // indirect
	github.com/xdg-go/stringprep v1.0.4 // indirect
	github.com/youmark/pkcs8 v0.0.0-20240726163527-a2c0da244d78 // indirect
	golang.org/x/crypto v0.50.0 // indirect
	golang.org/x/mod v0.41.0 // indirect
	golang.org/x/sync v0.23.0 // indirect
	golang.org/x/text v0.36.0 // indirect
	gopkg.in/tomb.v2 v2.0.0-20161208151619-d5d1b5820637 // indirect
)

replace github.com/256dpi/lungo => /repo
