package harness

import (
	"fmt"
	"testing"
	"time"

	"github.com/256dpi/lungo"
	"go.mongodb.org/mongo-driver/bson"
	"go.mongodb.org/mongo-driver/bson/primitive"

	"verif/harness/model"
)

// C08 - the change log is a faithful, gap-free, ordered record of committed changes.

func init() {
	register(&Property{ID: "C08", Gen: genC08, Exec: func(t *testing.T, p *Plan) *Outcome {
		return execSeq(t, p, seqHooks{prop: "C08", model: true})
	}})
}

func oplogOf(cat *lungo.Catalog) []bson.D {
	var out []bson.D
	for _, d := range cat.Namespaces[lungo.Oplog].Documents.List {
		out = append(out, toD(d))
	}
	return out
}

func eventTS(ev bson.D) (primitive.Timestamp, bool) {
	ts, ok := model.Get(ev, "_id.ts").(primitive.Timestamp)
	return ts, ok
}

func tsLess(a, b primitive.Timestamp) bool { return a.T < b.T || (a.T == b.T && a.I < b.I) }

type contents map[string]map[string]bson.D // namespace -> key(_id) -> document

func contentsOf(cat *lungo.Catalog) contents {
	out := contents{}
	for _, h := range handles(cat) {
		if h == lungo.Oplog {
			continue
		}
		m := map[string]bson.D{}
		for _, d := range cat.Namespaces[h].Documents.List {
			dd := toD(d)
			m[valStr(model.Get(dd, "_id"))] = dd
		}
		out[h.String()] = m
	}
	return out
}

func (e *Env) oplogSettings() (minSize, maxSize int, minAge, maxAge time.Duration) {
	c := e.plan.Cfg
	minSize, maxSize = c.MinOplog, c.MaxOplog
	minAge, maxAge = time.Duration(c.MinAgeS)*time.Second, time.Duration(c.MaxAgeS)*time.Second
	// documented defaults of lungo.Options
	if minSize == 0 {
		minSize = 100
	}
	if maxSize == 0 {
		maxSize = 1000
	}
	if minAge == 0 {
		minAge = 5 * time.Minute
	}
	if maxAge == 0 {
		maxAge = time.Hour
	}
	return
}

// checkOplogStep is evaluated at every commit S(k-1) -> S(k).
func checkOplogStep(e *Env, c *CommitRec) *Violation {
	if c.Prev == nil {
		return nil
	}
	prev, cur := oplogOf(c.Prev), oplogOf(c.Cat)
	// (a) prefix removal + append
	d := 0
	if len(cur) > 0 {
		first, _ := eventTS(cur[0])
		for d < len(prev) {
			ts, _ := eventTS(prev[d])
			if ts == first {
				break
			}
			d++
		}
	} else {
		d = len(prev)
	}
	kept := prev[d:]
	if len(kept) > len(cur) {
		return violation("C08", "log-not-prefix-trimmed", "", fmt.Sprintf("commit %d: %d earlier events should remain after trimming %d, the new log has only %d", c.Seq, len(kept), d, len(cur)))
	}
	for i := range kept {
		if !model.Same(kept[i], cur[i]) {
			return violation("C08", "log-not-prefix-trimmed", "", fmt.Sprintf("commit %d: retained event %d differs from the earlier log (events were removed from the middle or rewritten)", c.Seq, i))
		}
	}
	appended := cur[len(kept):]
	// ids strictly increasing and unique over the whole run
	for i := 1; i < len(cur); i++ {
		a, _ := eventTS(cur[i-1])
		b, ok := eventTS(cur[i])
		if !ok || !tsLess(a, b) {
			return violation("C08", "event-id-not-increasing", "", fmt.Sprintf("commit %d: event ids %v then %v", c.Seq, a, b))
		}
	}
	for _, ev := range appended {
		ts, _ := eventTS(ev)
		if !c.CallWall.IsZero() {
			if e.eventWall == nil {
				e.eventWall = map[primitive.Timestamp]time.Time{}
			}
			e.eventWall[ts] = c.CallWall
		}
		if e.maxTS != (primitive.Timestamp{}) && !tsLess(e.maxTS, ts) {
			key := ""
			if e.tsEpoch != c.Epoch {
				key = "after-restart"
			}
			return violation("C08", "event-id-reused", key, fmt.Sprintf("commit %d: event id %v is not greater than an id used earlier in the run (%v)", c.Seq, ts, e.maxTS))
		}
		e.maxTS, e.tsEpoch = ts, c.Epoch
	}
	// (b)+(c)+(d) replay the appended events onto the previous contents
	state := contentsOf(c.Prev)
	for _, ev := range appended {
		op, _ := model.Get(ev, "operationType").(string)
		db, _ := model.Get(ev, "ns.db").(string)
		coll, _ := model.Get(ev, "ns.coll").(string)
		nsName := db + "." + coll
		key := valStr(model.Get(ev, "documentKey._id"))
		switch op {
		case "insert", "replace", "update":
			full, ok := model.Get(ev, "fullDocument").(bson.D)
			if !ok {
				return violation("C08", "event-malformed", op, fmt.Sprintf("commit %d: %s event without fullDocument", c.Seq, op))
			}
			if state[nsName] == nil {
				state[nsName] = map[string]bson.D{}
			}
			old, had := state[nsName][key]
			if op == "insert" && had {
				return violation("C08", "event-without-change", "insert-existing", fmt.Sprintf("commit %d: insert event for %s %s which already exists", c.Seq, nsName, key))
			}
			if op != "insert" {
				if !had {
					return violation("C08", "event-without-change", op+"-missing", fmt.Sprintf("commit %d: %s event for %s %s which does not exist", c.Seq, op, nsName, key))
				}
				if model.Same(old, full) {
					return violation("C08", "event-without-change", op+"-noop", fmt.Sprintf("commit %d: %s event for %s %s although the document did not change", c.Seq, op, nsName, key))
				}
			}
			if op == "update" {
				upd, _ := model.Get(ev, "updateDescription.updatedFields").(bson.D)
				rem, _ := model.Get(ev, "updateDescription.removedFields").(bson.A)
				next := old
				var err error
				for _, f := range upd {
					next, err = model.SetPath(next, f.Key, f.Value)
					if err != nil {
						break
					}
				}
				if err == nil {
					for _, r := range rem {
						if s, ok := r.(string); ok {
							next = model.UnsetPath(next, s)
						}
					}
				}
				if err != nil || !model.Same(model.Canon(next).(bson.D), model.Canon(full).(bson.D)) {
					return violation("C08", "update-description-wrong", "", fmt.Sprintf("commit %d: applying updatedFields %s / removedFields %v to %s gives %s, the event's fullDocument is %s", c.Seq, docStr(upd), rem, docStr(old), docStr(next), docStr(full)))
				}
			}
			state[nsName][key] = full
		case "delete":
			if _, had := state[nsName][key]; !had {
				return violation("C08", "event-without-change", "delete-missing", fmt.Sprintf("commit %d: delete event for %s %s which does not exist", c.Seq, nsName, key))
			}
			delete(state[nsName], key)
		case "drop":
			delete(state, nsName)
		case "dropDatabase":
			for n := range state {
				if len(n) > len(db) && n[:len(db)+1] == db+"." {
					delete(state, n)
				}
			}
		default:
			return violation("C08", "event-malformed", "type", fmt.Sprintf("commit %d: unknown operationType %q", c.Seq, op))
		}
	}
	want := contentsOf(c.Cat)
	for n, docs := range want {
		got := state[n]
		if len(got) != len(docs) {
			return violation("C08", "replay-mismatch", "", fmt.Sprintf("commit %d: replaying the %d new events gives %d documents in %s, the committed state has %d", c.Seq, len(appended), len(got), n, len(docs)))
		}
		for k, dd := range docs {
			if g, ok := got[k]; !ok || !model.Same(g, dd) {
				return violation("C08", "replay-mismatch", "", fmt.Sprintf("commit %d: replaying the new events gives %s for %s %s, the committed state has %s", c.Seq, docStr(g), n, k, docStr(dd)))
			}
		}
	}
	for n, docs := range state {
		if _, ok := want[n]; !ok && len(docs) > 0 {
			return violation("C08", "replay-mismatch", "", fmt.Sprintf("commit %d: replay leaves %d documents in %s which the committed state does not have", c.Seq, len(docs), n))
		}
	}
	// (e) retention
	return checkRetention(e, c, append(append([]bson.D{}, prev...), appended...), d)
}

// checkRetention: full is the log before trimming (oldest first), d the number of trimmed events.
func checkRetention(e *Env, c *CommitRec, full []bson.D, d int) *Violation {
	minSize, maxSize, minAge, maxAge := e.oplogSettings()
	now := c.WallIn
	if n := len(full); n > 0 {
		// the log's notion of time never runs backwards (wall clock steps)
		if ts, ok := eventTS(full[n-1]); ok && time.Unix(int64(ts.T), 0).After(now) {
			now = time.Unix(int64(ts.T), 0)
		}
	}
	age := func(i int) time.Duration {
		ts, _ := eventTS(full[i])
		return now.Sub(time.Unix(int64(ts.T), 0))
	}
	// for "was it allowed to remove this event" the library's clock may be ahead of the wall clock: its
	// timestamp generator keeps the highest second it has ever read (also inside calls that failed)
	hi := now
	if e.maxWall.After(hi) {
		hi = e.maxWall
	}
	// exact age from the event's own wallTime (millisecond precision): the library compares whole seconds, which
	// can only keep an event longer than its exact age demands, never shorter - an event removed by the age
	// clause is at least minAge old by the highest clock reading the library can have seen
	ageHi := func(i int) time.Duration {
		if ts, ok := eventTS(full[i]); ok {
			if w, ok := e.eventWall[ts]; ok {
				// the harness's own reading, taken when the call that created the event was invoked: the event
				// is no older than this, whatever its fields say
				return hi.Sub(w)
			}
		}
		if w, ok := model.Get(full[i], "wallTime").(primitive.DateTime); ok {
			return hi.Sub(w.Time())
		}
		ts, _ := eventTS(full[i])
		return hi.Sub(time.Unix(int64(ts.T), 0))
	}
	const tolExact = 5 * time.Millisecond
	const tol = 1500 * time.Millisecond
	if d > 0 {
		e.probe("retention-trimmed")
	}
	for i := 0; i < d; i++ {
		if i >= len(full)-minSize {
			return violation("C08", "retention-removed-protected", "min-size", fmt.Sprintf("commit %d: event %d of %d was removed although the newest %d events are protected", c.Seq, i, len(full), minSize))
		}
		if minAge > 0 && ageHi(i) < minAge-tolExact {
			return violation("C08", "retention-removed-protected", "min-age", fmt.Sprintf("commit %d: event %d (age %v) was removed although events younger than %v are protected", c.Seq, i, ageHi(i), minAge))
		}
	}
	if d < len(full) {
		// the statement does not say which clock measures an age. After a backwards step the wall clock makes an
		// event younger than the log's own notion of time (which never runs backwards) does: only what is overdue
		// under both readings is demanded
		lo := age(d)
		ts, _ := eventTS(full[d])
		if raw := c.WallIn.Sub(time.Unix(int64(ts.T), 0)); raw < lo {
			lo = raw
		}
		unprotected := d < len(full)-minSize && (minAge == 0 || lo > minAge+tol)
		beyond := d < len(full)-maxSize || lo > maxAge+tol
		if unprotected && beyond {
			return violation("C08", "retention-not-applied", "", fmt.Sprintf("commit %d: oldest remaining event (index %d of %d, age %v) is beyond max size %d / max age %v and not protected by min size %d / min age %v", c.Seq, d, len(full), age(d), maxSize, maxAge, minSize, minAge))
		}
	}
	return nil
}

func genC08(seed uint64, run int, tier string) *Plan {
	r := newRNG(seed, 8)
	g := newGen(r)
	g.failing = 15
	g.wide = 25
	g.etxn = 4
	g.ids = 3 + r.IntN(3)
	if r.IntN(2) == 0 {
		g.colls = []string{"c0"}
	}
	if r.IntN(3) == 0 {
		g.dbs = []string{"db", "db2"}
	}
	p := &Plan{Prop: "C08", Seed: seed, Run: run, Cfg: seqCfg(r)}
	// retention settings: small sizes so trimming happens; ages from seconds to days
	p.Cfg.MinOplog = 1 + r.IntN(6)
	p.Cfg.MaxOplog = p.Cfg.MinOplog + r.IntN(8)
	ages := []int64{1, 2, 5, 60, 600, 3600, 86400, 5 * 86400}
	p.Cfg.MinAgeS = pick(r, ages...)
	p.Cfg.MaxAgeS = pick(r, ages...)
	if p.Cfg.MaxAgeS < p.Cfg.MinAgeS {
		p.Cfg.MinAgeS, p.Cfg.MaxAgeS = p.Cfg.MaxAgeS, p.Cfg.MinAgeS
	}
	p.Cfg.ExpireMs = 24 * 3600 * 1000 // time advances by days: keep expiry ticks rare
	tp := TaskPlan{Name: "client"}
	tp.Ops = append(tp.Ops, g.seedOps(70)...)
	n := deepen(tier, seed, 2+r.IntN(14))
	for i := 0; i < n; i++ {
		op := g.crud()
		if op.TTL != nil {
			big := int32(100000000)
			op.TTL = &big
		}
		tp.Ops = append(tp.Ops, op)
		if r.IntN(3) == 0 {
			// advance simulated time: fractions of a second up to days
			ms := pick(r, int64(300), 1000, 1500, 5000, 61000, 601000, 3700000, 90000000)
			tp.Ops = append(tp.Ops, Op{K: "sleep", Ms: ms})
		}
		if r.IntN(12) == 0 {
			// wall clock steps forwards / backwards between calls
			tp.Ops = append(tp.Ops, Op{K: "clock", Ms: pick(r, int64(5000), 3600000, 86400000, -5000, -3600000)})
		}
		if p.Cfg.Store == "file" && r.IntN(15) == 0 {
			tp.Ops = append(tp.Ops, Op{K: "restart", N: r.IntN(2)})
			if r.IntN(2) == 0 {
				tp.Ops = append(tp.Ops, Op{K: "sleep", Ms: 1100})
			}
		}
	}
	if r.IntN(6) == 0 {
		p.Faults = append(p.Faults, Fault{Kind: pick(r, "store-before", "store-after"), At: 1 + r.IntN(8)})
	}
	p.Tasks = []TaskPlan{tp}
	return p
}
