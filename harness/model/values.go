// Package model is a small, independent, sequential reference implementation
// of the MongoDB semantics lungo promises, restricted to the value and operator
// domain of DESIGN.md section 8. It shares no code with lungo's mongokit or
// bsonkit packages.
package model

import (
	"bytes"
	"fmt"
	"sort"
	"strconv"
	"strings"

	"go.mongodb.org/mongo-driver/bson"
	"go.mongodb.org/mongo-driver/bson/primitive"
)

// D is a document.
type D = bson.D

// A is an array.
type A = bson.A

type missingT struct{}

// Missing marks an absent field.
var Missing = missingT{}

// class returns the MongoDB comparison bracket of a value.
func class(v any) int {
	switch v.(type) {
	case missingT, nil, primitive.Null:
		return 1
	case int32, int64, float64:
		return 2
	case string:
		return 3
	case D:
		return 4
	case A:
		return 5
	case primitive.Binary:
		return 6
	case primitive.ObjectID:
		return 7
	case bool:
		return 8
	case primitive.DateTime:
		return 9
	case primitive.Timestamp:
		return 10
	}
	panic(fmt.Sprintf("model: value outside the domain: %T", v))
}

func num(v any) float64 {
	switch x := v.(type) {
	case int32:
		return float64(x)
	case int64:
		return float64(x)
	case float64:
		return x
	}
	panic("model: not a number")
}

// Compare orders two values (MongoDB order, numbers by value; magnitudes in the
// domain are far below 2^53 so float64 comparison is exact).
func Compare(a, b any) int {
	ca, cb := class(a), class(b)
	if ca != cb {
		if ca < cb {
			return -1
		}
		return 1
	}
	switch ca {
	case 1:
		return 0
	case 2:
		x, y := num(a), num(b)
		switch {
		case x < y:
			return -1
		case x > y:
			return 1
		}
		return 0
	case 3:
		return strings.Compare(a.(string), b.(string))
	case 4:
		x, y := a.(D), b.(D)
		for i := 0; i < len(x) && i < len(y); i++ {
			if c := cmpInt(class(x[i].Value), class(y[i].Value)); c != 0 {
				return c
			}
			if c := strings.Compare(x[i].Key, y[i].Key); c != 0 {
				return c
			}
			if c := Compare(x[i].Value, y[i].Value); c != 0 {
				return c
			}
		}
		return cmpInt(len(x), len(y))
	case 5:
		x, y := a.(A), b.(A)
		for i := 0; i < len(x) && i < len(y); i++ {
			if c := Compare(x[i], y[i]); c != 0 {
				return c
			}
		}
		return cmpInt(len(x), len(y))
	case 6:
		x, y := a.(primitive.Binary), b.(primitive.Binary)
		if c := cmpInt(len(x.Data), len(y.Data)); c != 0 {
			return c
		}
		if c := cmpInt(int(x.Subtype), int(y.Subtype)); c != 0 {
			return c
		}
		return bytes.Compare(x.Data, y.Data)
	case 7:
		x, y := a.(primitive.ObjectID), b.(primitive.ObjectID)
		return bytes.Compare(x[:], y[:])
	case 8:
		x, y := a.(bool), b.(bool)
		if x == y {
			return 0
		}
		if !x {
			return -1
		}
		return 1
	case 9:
		return cmpInt64(int64(a.(primitive.DateTime)), int64(b.(primitive.DateTime)))
	case 10:
		x, y := a.(primitive.Timestamp), b.(primitive.Timestamp)
		if x.T != y.T {
			return cmpInt64(int64(x.T), int64(y.T))
		}
		return cmpInt64(int64(x.I), int64(y.I))
	}
	panic("unreachable")
}

func cmpInt(a, b int) int {
	if a < b {
		return -1
	}
	if a > b {
		return 1
	}
	return 0
}

func cmpInt64(a, b int64) int {
	if a < b {
		return -1
	}
	if a > b {
		return 1
	}
	return 0
}

// Equal is BSON equality across numeric types.
func Equal(a, b any) bool { return Compare(a, b) == 0 }

// Bytes returns the BSON encoding of a document.
func Bytes(d D) []byte {
	b, err := bson.Marshal(d)
	if err != nil {
		panic(err)
	}
	return b
}

// Same reports byte identity of two documents (field order and value types count).
func Same(a, b D) bool { return bytes.Equal(Bytes(a), Bytes(b)) }

// Clone deep-copies a value.
func Clone(v any) any {
	switch x := v.(type) {
	case D:
		out := make(D, len(x))
		for i, e := range x {
			out[i] = bson.E{Key: e.Key, Value: Clone(e.Value)}
		}
		return out
	case A:
		out := make(A, len(x))
		for i, e := range x {
			out[i] = Clone(e)
		}
		return out
	}
	return v
}

// CloneD deep-copies a document.
func CloneD(d D) D {
	if d == nil {
		return nil
	}
	return Clone(d).(D)
}

func field(d D, key string) (any, bool) {
	for _, e := range d {
		if e.Key == key {
			return e.Value, true
		}
	}
	return Missing, false
}

func isIndex(s string) (int, bool) {
	if s == "" {
		return 0, false
	}
	for _, c := range s {
		if c < '0' || c > '9' {
			return 0, false
		}
	}
	n, err := strconv.Atoi(s)
	return n, err == nil
}

// Get returns the value at a dotted path without fanning out over arrays
// (numeric segments index into arrays). Missing if absent.
func Get(v any, path string) any {
	if path == "" {
		return v
	}
	for _, p := range strings.Split(path, ".") {
		switch x := v.(type) {
		case D:
			var ok bool
			v, ok = field(x, p)
			if !ok {
				return Missing
			}
		case A:
			i, ok := isIndex(p)
			if !ok || i >= len(x) {
				return Missing
			}
			v = x[i]
		default:
			return Missing
		}
	}
	return v
}

// leaves returns the values found at path, fanning out over arrays of
// embedded documents on the way (MongoDB query path semantics). found is false
// if no value exists at the path at all.
func leaves(v any, parts []string) (out []any) {
	if len(parts) == 0 {
		return []any{v}
	}
	switch x := v.(type) {
	case D:
		f, ok := field(x, parts[0])
		if !ok {
			return nil
		}
		return leaves(f, parts[1:])
	case A:
		if i, ok := isIndex(parts[0]); ok {
			if i < len(x) {
				out = append(out, leaves(x[i], parts[1:])...)
			}
		}
		for _, e := range x {
			if d, ok := e.(D); ok {
				out = append(out, leaves(d, parts)...)
			}
		}
		return out
	}
	return nil
}

// candidates returns the leaves plus, for leaf arrays, their elements.
func candidates(doc D, path string) (vals []any, exists bool) {
	ls := leaves(doc, strings.Split(path, "."))
	for _, l := range ls {
		vals = append(vals, l)
		if a, ok := l.(A); ok {
			vals = append(vals, a...)
		}
	}
	return vals, len(ls) > 0
}

func sortStrings(s []string) []string { sort.Strings(s); return s }
