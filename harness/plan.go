package harness

import (
	"encoding/json"
	"fmt"
	"hash/fnv"
	"math/rand/v2"

	"go.mongodb.org/mongo-driver/bson"
)

// J wraps a BSON document so that plans and replay files carry it as canonical
// extended JSON.
type J struct{ D bson.D }

// MarshalJSON implements json.Marshaler.
func (j J) MarshalJSON() ([]byte, error) {
	if j.D == nil {
		return []byte("null"), nil
	}
	return bson.MarshalExtJSON(j.D, true, false)
}

// UnmarshalJSON implements json.Unmarshaler.
func (j *J) UnmarshalJSON(b []byte) error {
	if string(b) == "null" {
		j.D = nil
		return nil
	}
	var d bson.D
	if err := bson.UnmarshalExtJSON(b, true, &d); err != nil {
		return err
	}
	j.D = d
	return nil
}

func jd(d bson.D) *J {
	if d == nil {
		return nil
	}
	return &J{d}
}

func (j *J) doc() bson.D {
	if j == nil {
		return nil
	}
	return j.D
}

// Op is one generated API call (or pseudo operation). Which fields are used
// depends on K.
type Op struct {
	K       string `json:"k"`
	DB      string `json:"db,omitempty"`
	C       string `json:"c,omitempty"`
	F       *J     `json:"f,omitempty"`    // filter
	U       *J     `json:"u,omitempty"`    // update
	D       *J     `json:"d,omitempty"`    // document / replacement
	Docs    []*J   `json:"docs,omitempty"` // insert many
	S       *J     `json:"s,omitempty"`    // sort
	P       *J     `json:"p,omitempty"`    // projection
	Skip    int    `json:"skip,omitempty"`
	Limit   int    `json:"limit,omitempty"`
	Upsert  bool   `json:"upsert,omitempty"`
	Ordered bool   `json:"ordered,omitempty"`
	After   bool   `json:"after,omitempty"`
	Field   string `json:"field,omitempty"`
	Name    string `json:"name,omitempty"`
	Unique  bool   `json:"unique,omitempty"`
	TTL     *int32 `json:"ttl,omitempty"`
	Items   []Op   `json:"items,omitempty"`
	Ms      int64  `json:"ms,omitempty"`  // sleep / hold time / deadline
	N       int    `json:"n,omitempty"`   // generic integer argument
	Ctx     string `json:"ctx,omitempty"` // "" | cancel (while blocked) | deadline
	Sess    int    `json:"sess,omitempty"`
	Tag     string `json:"tag,omitempty"`
	Sub     []Op   `json:"sub,omitempty"` // transaction body
	End     string `json:"end,omitempty"` // commit | abort | end | error | panic
	Scope   string `json:"scope,omitempty"`
	Start   string `json:"start,omitempty"`
	Level   string `json:"level,omitempty"` // driver | engine
	Parts   []int  `json:"parts,omitempty"` // GridFS: fragmentation of writes / reads
	AF      []*J   `json:"af,omitempty"`    // array filters
	Wide    bool   `json:"wide,omitempty"`  // update outside the reference model's operator domain (judged by the model-free oracles only)
}

// TaskPlan is the script of one task.
type TaskPlan struct {
	Name string `json:"name"`
	Role string `json:"role,omitempty"`
	Ops  []Op   `json:"ops"`
}

// Fault is one injected fault.
type Fault struct {
	Kind  string `json:"kind"`            // store-before | store-after | store-latency | disk-err | disk-kill-before | disk-kill-after | delay | clock-jump | clock-back
	At    int    `json:"at"`              // store call index / disk fault point / scheduler step
	Task  int    `json:"task,omitempty"`  // victim (delay)
	N     int    `json:"n,omitempty"`     // steps (delay) / short-write bytes
	Ms    int64  `json:"ms,omitempty"`    // latency / jump
	Errno string `json:"errno,omitempty"` // EIO | ENOSPC | EACCES | EPERM | EEXIST | ENOENT
	Power *Power `json:"power,omitempty"` // power loss outcome after a kill (nil: process kill only)
}

// Power selects a power-loss outcome.
type Power struct {
	DirMask  uint64 `json:"dirmask"`
	DataMode string `json:"data"`
	DataSeed uint64 `json:"seed"`
}

// Cfg holds the per-run knobs.
type Cfg struct {
	Store        string `json:"store"` // mem | file
	Strategy     string `json:"strategy"`
	PCTDepth     int    `json:"pct_depth,omitempty"`
	TimePassPct  int    `json:"time_pass_pct,omitempty"`
	ExpireMs     int64  `json:"expire_ms"`
	MinOplog     int    `json:"min_oplog,omitempty"`
	MaxOplog     int    `json:"max_oplog,omitempty"`
	MinAgeS      int64  `json:"min_age_s,omitempty"`
	MaxAgeS      int64  `json:"max_age_s,omitempty"`
	BlockSize    int    `json:"block_size,omitempty"`
	DiskLatMs    int64  `json:"disk_lat_ms,omitempty"`
	MaxSteps     int    `json:"max_steps,omitempty"`
	StallS       int64  `json:"stall_s,omitempty"`
	Variant      string `json:"variant,omitempty"`
	Dirs         int    `json:"dirs,omitempty"`
	SharedSess   bool   `json:"shared_sess,omitempty"`
	CloseAtEnd   bool   `json:"close_at_end,omitempty"`
	StartOffsetS int64  `json:"start_offset_s,omitempty"`
	Fine         int    `json:"fine,omitempty"` // statement-level scheduling points: 1 protocol files, 2 whole protocol packages
}

// Plan is everything that determines a run.
type Plan struct {
	Prop     string     `json:"property"`
	Seed     uint64     `json:"seed"`
	Run      int        `json:"run"`
	Cfg      Cfg        `json:"config"`
	Tasks    []TaskPlan `json:"tasks"`
	Faults   []Fault    `json:"faults,omitempty"`
	Schedule []int      `json:"schedule,omitempty"`
}

// Clone deep-copies a plan through JSON.
func (p *Plan) Clone() *Plan {
	b, err := json.Marshal(p)
	if err != nil {
		panic(err)
	}
	var out Plan
	if err := json.Unmarshal(b, &out); err != nil {
		panic(fmt.Sprintf("plan clone: %v\n%s", err, b))
	}
	return &out
}

// NumOps counts operations (including nested ones).
func (p *Plan) NumOps() int {
	n := 0
	var walk func(ops []Op)
	walk = func(ops []Op) {
		for _, o := range ops {
			n++
			walk(o.Sub)
		}
	}
	for _, t := range p.Tasks {
		walk(t.Ops)
	}
	return n
}

// Violation describes a property violation found by a run.
type Violation struct {
	Prop      string `json:"property"`
	Class     string `json:"class"`
	Key       string `json:"key,omitempty"`
	Detail    string `json:"detail"`
	Signature string `json:"signature"`
}

func violation(prop, class, key, detail string) *Violation {
	sig := prop + "/" + class
	if key != "" {
		sig += "/" + key
	}
	return &Violation{Prop: prop, Class: class, Key: key, Detail: detail, Signature: sig}
}

// Outcome is the result of executing a plan.
type Outcome struct {
	Violation *Violation   `json:"violation,omitempty"`
	Foreign   []*Violation `json:"foreign,omitempty"`
	Harness   string       `json:"harness_fault,omitempty"`

	Steps        int            `json:"steps"`
	ChoicePoints int            `json:"choice_points"`
	SimNanos     int64          `json:"sim_nanos"`
	Commits      int            `json:"commits"`
	Faults       map[string]int `json:"faults,omitempty"`
	Probes       map[string]int `json:"probes,omitempty"`
	TraceHash    uint64         `json:"trace_hash"`
	HBHash       uint64         `json:"hb_hash"`
	StateHash    uint64         `json:"state_hash"`
	LogHash      uint64         `json:"log_hash"`
	Schedule     []int          `json:"-"`
	Unseeded     int            `json:"unseeded,omitempty"`
	Log          []string       `json:"-"`
	Trace        []string       `json:"-"`
	Nontrivial   bool           `json:"nontrivial"`
}

func hash64(parts ...any) uint64 {
	h := fnv.New64a()
	for _, p := range parts {
		fmt.Fprintf(h, "%v|", p)
	}
	return h.Sum64()
}

// runSeed derives the seed of run i from the batch seed.
func runSeed(seed uint64, prop string, i int) uint64 {
	return hash64("run", seed, prop, i)
}

// fineKnob decides (from its own PRNG stream, so that the rest of the plan does
// not depend on it) whether a run uses statement-level scheduling points.
func fineKnob(seed uint64, pct1, pct2 int) int {
	switch k := newRNG(seed, 0xf14e).IntN(100); {
	case k < pct2:
		return 2
	case k < pct1+pct2:
		return 1
	}
	return 0
}

// deepen scales a length knob in the thorough tier: a third of the thorough
// runs are two to three times as long as the quick tier's (decided from the
// run's own PRNG stream so that the rest of the plan is unaffected).
func deepen(tier string, seed uint64, n int) int {
	if tier != "thorough" {
		return n
	}
	switch newRNG(seed, 0xdee9).IntN(6) {
	case 0:
		return 2*n + 2
	case 1:
		return 3*n + 1
	}
	return n
}

// fineTier is fineKnob with the thorough tier's larger share of fine-grained runs.
func fineTier(tier string, seed uint64, pct1, pct2 int) int {
	if tier == "thorough" {
		return fineKnob(seed, 2*pct1, 3*pct2)
	}
	return fineKnob(seed, pct1, pct2)
}

func newRNG(seed uint64, stream uint64) *rand.Rand {
	return rand.New(rand.NewPCG(seed, stream))
}
