package harness

import (
	"fmt"
	"testing"

	"github.com/256dpi/lungo"
	"go.mongodb.org/mongo-driver/bson"

	"verif/harness/model"
)

// C02 - a write that reports an error leaves the database exactly as it was.

func init() {
	register(&Property{ID: "C02", Gen: genC02, Exec: func(t *testing.T, p *Plan) *Outcome {
		return execSeq(t, p, seqHooks{prop: "C02", model: true, after: c02After})
	}})
}

func singleItem(k string) bool { return k != "insertMany" && k != "bulk" }

// c02After: a failing single-item call must leave every namespace (documents,
// index definitions, index contents, change log) byte-identical.
func c02After(e *Env, st *model.State, op *Op, c *CallRec, before, after *lungo.Catalog) {
	if op.K == "s.txn" {
		// failing calls inside a transaction that goes on and commits: they must not have left anything in the
		// transaction's working state - documents are decided by the model comparison, index contents here
		failed := 0
		for _, sub := range c.Subs {
			if (sub.Err != nil || sub.Res.Err != "") && isWrite(sub.Op.K) {
				failed++
				e.probe("failed-write-in-transaction:" + sub.Op.K)
			}
		}
		if failed > 0 && c.TxnOK {
			v := checkIndexes(after)
			if v == nil {
				v = checkUnique(after)
			}
			if v != nil {
				e.violate(violation("C02", "failed-write-left-trace", "in-transaction", fmt.Sprintf("a transaction with %d failing calls committed a catalog whose indexes are damaged: %s", failed, v.Detail)))
			}
		}
		if !c.TxnOK && c.Err == nil {
			// aborted: nothing at all may differ
			if b, a := catalogDump(before, true), catalogDump(after, true); a != b {
				e.violate(violation("C02", "failed-write-left-trace", "aborted-transaction", fmt.Sprintf("an aborted transaction changed the database:\n--- before\n%s--- after\n%s", clip(b), clip(a))))
			}
		}
		return
	}
	if c.Err == nil && c.Res.Err == "" {
		return
	}
	if !isWrite(op.K) {
		return
	}
	e.probe("failed-write:" + op.K)
	if singleItem(op.K) {
		if b, a := catalogDump(before, true), catalogDump(after, true); a != b {
			e.violate(violation("C02", "failed-write-left-trace", op.K, fmt.Sprintf("%s returned %v but changed the database:\n--- before\n%s--- after\n%s", opStr(op), c.Err, b, a)))
		}
		return
	}
	// multi-item calls: the data part is decided by the model comparison; the change log must have grown by
	// exactly the number of changes that took effect
	grown := len(after.Namespaces[lungo.Oplog].Documents.List) - len(before.Namespaces[lungo.Oplog].Documents.List)
	want := int(c.Res.Inserted + c.Res.Modified + c.Res.Upserted + c.Res.Deleted)
	if e.plan.Cfg.MaxOplog < 100 {
		// retention may trim in the same commit: the C08 monitor replays the log instead
		grown = want
	}
	if grown != want {
		e.violate(violation("C02", "failed-batch-event-count", op.K, fmt.Sprintf("%s: %d changes took effect but the change log grew by %d events", opStr(op), want, grown)))
	}
	e.probe("partial-batch")
}

func genC02(seed uint64, run int, tier string) *Plan {
	r := newRNG(seed, 2)
	g := newGen(r)
	g.failing = 45
	g.wide = 15
	g.etxn = 10
	g.colls = []string{"c0"}
	g.ids = 3 + r.IntN(3)
	p := &Plan{Prop: "C02", Seed: seed, Run: run, Cfg: seqCfg(r)}
	p.Cfg.MinOplog, p.Cfg.MaxOplog = 1000, 2000 // no retention in most runs: event counts are compared
	idle := r.IntN(10) < 3
	if idle {
		// retention with second-scale ages and idle periods: a failing call must not trim the change log either
		p.Cfg.MinOplog = 1 + r.IntN(3)
		p.Cfg.MaxOplog = p.Cfg.MinOplog + r.IntN(3)
		p.Cfg.MinAgeS, p.Cfg.MaxAgeS = 1, pick(r, int64(1), 2, 3600)
		p.Cfg.ExpireMs = 3600000
	}
	tp := TaskPlan{Name: "client"}
	tp.Ops = append(tp.Ops, g.seedOps(100)...)
	if r.IntN(2) == 0 {
		tp.Ops = append(tp.Ops, Op{K: "createIndex", DB: "db", C: "c0", D: jd(bson.D{{Key: pick(r, "a", "b", "s"), Value: int32(1)}}), Unique: true})
	}
	n := deepen(tier, seed, 1+r.IntN(8))
	for i := 0; i < n; i++ {
		var op Op
		switch r.IntN(12) {
		case 10, 11:
			// a session transaction whose body contains failing calls and which then commits (or aborts)
			op = Op{K: "s.txn", End: pick(r, "commit", "commit", "commit", "abort"), Tag: "t"}
			if r.IntN(3) == 0 {
				op.Sess = privSess
			}
			for k := 2 + r.IntN(3); k > 0; k-- {
				var sub Op
				switch r.IntN(4) {
				case 0:
					sub = Op{K: "updateMany", F: jd(pick(r, bson.D{}, g.filter())), U: jd(bson.D{{Key: pick(r, "$set", "$inc"), Value: bson.D{{Key: pick(r, "a", "b"), Value: int32(1)}}}})}
				case 1:
					sub = Op{K: "insertOne", D: jd(g.doc(true))}
				default:
					sub = g.crudPlain()
					for !isWrite(sub.K) || sub.K == "dropDB" || sub.K == "dropColl" || sub.K == "createColl" || isIndexOp(sub.K) {
						sub = g.crudPlain()
					}
				}
				sub.DB, sub.C = "db", "c0"
				if r.IntN(7) == 0 {
					// a failing upsert into a collection that does not exist yet: the statement must not create it
					sub = Op{K: "updateOne", DB: "db", C: "c9", F: jd(bson.D{{Key: "a", Value: int32(r.IntN(3))}}), U: jd(pick(r, bson.D{{Key: "$push", Value: bson.D{{Key: "a", Value: int32(1)}}}}, bson.D{{Key: "$bogus", Value: bson.D{{Key: "a", Value: int32(1)}}}})), Upsert: true}
				}
				if sub.K == "findOneAndUpdate" || sub.K == "findOneAndReplace" {
					sub.Upsert = false // (the id an upsert generates is not reported by these calls)
				}
				if len(op.Sub) > 0 && r.IntN(8) == 0 {
					// index management after the transaction's own writes: refused or failing, it must leave
					// nothing in what the transaction commits
					sub = Op{K: "createIndex", DB: "db", C: "c0", D: jd(bson.D{{Key: pick(r, "a", "b", "s"), Value: int32(1)}}), Unique: true}
				}
				op.Sub = append(op.Sub, sub)
			}
		case 0, 1, 2:
			// multi-document update that may fail at the k-th matched document
			op = Op{K: "updateMany", DB: "db", C: "c0", F: jd(pick(r, bson.D{}, g.filter())), U: jd(g.update())}
			if r.IntN(3) == 0 {
				// shift a unique key: collides at some document
				op.U = jd(bson.D{{Key: pick(r, "$set", "$inc"), Value: bson.D{{Key: pick(r, "a", "b"), Value: int32(1)}}}})
			}
		case 3:
			op = Op{K: "insertMany", DB: "db", C: "c0", Ordered: r.IntN(2) == 0}
			for k := 2 + r.IntN(4); k > 0; k-- {
				op.Docs = append(op.Docs, jd(g.doc(true)))
			}
		case 4, 5:
			op = Op{K: "bulk", DB: "db", C: "c0", Ordered: r.IntN(2) == 0}
			for k := 2 + r.IntN(4); k > 0; k-- {
				op.Items = append(op.Items, g.bulkItem())
			}
			if r.IntN(3) == 0 {
				// the first write into a collection that does not exist (or was dropped), with items that collide on
				// _id: the collection is created by the call itself, the failing items must still leave nothing
				op.C = pick(r, "c7", "c8")
				op.Items = nil
				for k := 2 + r.IntN(3); k > 0; k-- {
					id := int32(r.IntN(2))
					switch r.IntN(3) {
					case 0:
						op.Items = append(op.Items, Op{K: "insert", D: jd(bson.D{{Key: "_id", Value: id}, {Key: "a", Value: int32(k)}})})
					case 1:
						op.Items = append(op.Items, Op{K: "replace", F: jd(bson.D{{Key: "s", Value: fmt.Sprintf("none%d", k)}}), D: jd(bson.D{{Key: "_id", Value: id}, {Key: "s", Value: "r"}}), Upsert: true})
					default:
						op.Items = append(op.Items, Op{K: "updateOne", F: jd(bson.D{{Key: "_id", Value: id}, {Key: "s", Value: fmt.Sprintf("none%d", k)}}), U: jd(bson.D{{Key: "$set", Value: bson.D{{Key: "a", Value: int32(k)}}}}), Upsert: true})
					}
				}
				if r.IntN(3) == 0 {
					tp.Ops = append(tp.Ops, Op{K: "dropColl", DB: "db", C: op.C})
				}
			}
		case 6:
			op = g.indexOp("db", "c0")
		default:
			op = g.crud()
			op.DB, op.C = "db", "c0"
		}
		if op.TTL != nil {
			big := int32(100000000)
			op.TTL = &big
		}
		tp.Ops = append(tp.Ops, op)
		if idle && r.IntN(2) == 0 {
			tp.Ops = append(tp.Ops, Op{K: "sleep", Ms: int64(1100 + r.IntN(3000))})
		}
	}
	if r.IntN(4) == 0 {
		p.Faults = append(p.Faults, Fault{Kind: pick(r, "store-before", "store-after"), At: 1 + r.IntN(6)})
	}
	p.Tasks = []TaskPlan{tp}
	return p
}
