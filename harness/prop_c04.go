package harness

import (
	"context"
	"fmt"
	"testing"
	"time"

	"github.com/256dpi/lungo/verifsim/simrt"
	"github.com/anishathalye/porcupine"
	"go.mongodb.org/mongo-driver/bson"
	"go.mongodb.org/mongo-driver/bson/primitive"
	"go.mongodb.org/mongo-driver/mongo"
	"go.mongodb.org/mongo-driver/mongo/options"

	"verif/harness/model"
)

// C04 - concurrent operations are strictly serializable; no update is lost.

func init() {
	register(&Property{ID: "C04", Gen: genC04, Exec: execC04})
}

func genC04(seed uint64, run int, tier string) *Plan {
	if newRNG(seed, 0x5a4e).IntN(100) < 8 {
		return genC04Shared(seed, run)
	}
	return genC04Plain(seed, run, tier)
}

// genC04Shared: several goroutines work inside ONE session transaction (the
// transaction object is shared state with its own lock): their increments
// must not overwrite each other either.
func genC04Shared(seed uint64, run int) *Plan {
	r := newRNG(seed, 44)
	p := &Plan{Prop: "C04", Seed: seed, Run: run}
	p.Cfg = Cfg{Store: "mem", Strategy: pick(r, "random", "random", "pct", "sticky"), PCTDepth: 1 + r.IntN(3), ExpireMs: 60000, Variant: "sharedtxn", SharedSess: true}
	p.Cfg.Fine = pick(r, 0, 1, 1, 1, 2)
	if r.IntN(2) == 0 {
		// the transaction is committed by another goroutine while the members are still working: what they do
		// afterwards runs on its own, and every acknowledged increment still counts exactly once
		p.Cfg.CloseAtEnd = true
	}
	keys := 1 + r.IntN(2)
	uniq := 0
	for ti, n := 0, 2+r.IntN(2); ti < n; ti++ {
		tp := TaskPlan{Name: fmt.Sprintf("member%d", ti)}
		for k := 1 + r.IntN(4); k > 0; k-- {
			key := bson.D{{Key: "_id", Value: int32(r.IntN(keys))}}
			inc := bson.D{{Key: "$inc", Value: bson.D{{Key: "n", Value: int32(1)}}}}
			var sub Op
			switch r.IntN(7) {
			case 5:
				// documents of their own: every acknowledged one must be there after the commit
				uniq++
				sub = Op{K: "insertOne", DB: "db", C: "k", D: jd(bson.D{{Key: "_id", Value: int32(100 + uniq)}, {Key: "own", Value: true}})}
			case 6:
				uniq++
				sub = Op{K: "replaceOne", DB: "db", C: "k", F: jd(bson.D{{Key: "_id", Value: int32(100 + uniq)}}), D: jd(bson.D{{Key: "own", Value: true}}), Upsert: true}
			case 0, 1:
				sub = Op{K: "updateOne", DB: "db", C: "k", F: jd(key), U: jd(inc), Upsert: true}
			case 2, 3:
				sub = Op{K: "findOneAndUpdate", DB: "db", C: "k", F: jd(key), U: jd(inc), Upsert: true, After: true}
			default:
				sub = Op{K: "find", DB: "db", C: "k", F: jd(bson.D{})}
				if r.IntN(2) == 0 {
					// an expiry pass over another collection, on the same transaction
					tp.Ops = append(tp.Ops, Op{K: "s.expire"})
					continue
				}
			}
			tp.Ops = append(tp.Ops, Op{K: "s.op", Sess: 0, Sub: []Op{sub}})
		}
		p.Tasks = append(p.Tasks, tp)
	}
	return p
}

func genC04Plain(seed uint64, run int, tier string) *Plan {
	r := newRNG(seed, 4)
	p := &Plan{Prop: "C04", Seed: seed, Run: run}
	p.Cfg = Cfg{
		Store:    pick(r, "mem", "mem", "mem", "file"),
		Strategy: pick(r, "random", "random", "pct", "pct", "pct", "sticky"),
		PCTDepth: 1 + r.IntN(3),
		ExpireMs: pick(r, int64(200), 1000, 60000),
	}
	p.Cfg.Fine = fineTier(tier, seed, 15, 3)
	if p.Cfg.Store == "file" {
		// a slow disk: every file operation of a commit takes simulated time, so timers (expiry ticks,
		// deadlines) fire in the middle of commits
		p.Cfg.DiskLatMs = pick(newRNG(seed, 0xd15c), int64(0), 0, 1, 5, 20)
	}
	keys := 1 + r.IntN(3)
	ntasks := 2 + r.IntN(3)
	tag := 0
	nextTag := func() string { tag++; return fmt.Sprintf("w%d", tag) }
	key := func() any { return int32(r.IntN(keys)) }
	single := func() Op {
		k := key()
		switch r.IntN(13) {
		case 12:
			// "queue pop": a sorted find-one-and-update whose own update takes the document out of the filter
			return Op{K: "findOneAndUpdate", DB: "db", C: "k", F: jd(bson.D{{Key: "taken", Value: bson.D{{Key: "$exists", Value: false}}}}), S: jd(bson.D{{Key: "_id", Value: pick(r, int32(1), int32(-1))}}), U: jd(bson.D{{Key: "$set", Value: bson.D{{Key: "taken", Value: nextTag()}}}}), After: r.IntN(2) == 0}
		case 0, 1:
			return Op{K: "updateOne", DB: "db", C: "k", F: jd(bson.D{{Key: "_id", Value: k}}), U: jd(bson.D{{Key: "$inc", Value: bson.D{{Key: "n", Value: int32(1)}}}}), Upsert: true}
		case 2:
			return Op{K: "findOneAndUpdate", DB: "db", C: "k", F: jd(bson.D{{Key: "_id", Value: k}}), U: jd(bson.D{{Key: "$inc", Value: bson.D{{Key: "n", Value: int32(1)}}}}), Upsert: true, After: r.IntN(2) == 0}
		case 3:
			return Op{K: "insertOne", DB: "db", C: "k", D: jd(bson.D{{Key: "_id", Value: k}, {Key: "n", Value: int32(0)}, {Key: "by", Value: nextTag()}})}
		case 4:
			return Op{K: "updateOne", DB: "db", C: "k", F: jd(bson.D{{Key: "_id", Value: k}}), U: jd(bson.D{{Key: "$set", Value: bson.D{{Key: "by", Value: nextTag()}}}})}
		case 5:
			return Op{K: "updateMany", DB: "db", C: "k", F: jd(bson.D{}), U: jd(bson.D{{Key: "$inc", Value: bson.D{{Key: "m", Value: int32(1)}}}})}
		case 6:
			return Op{K: "deleteOne", DB: "db", C: "k", F: jd(bson.D{{Key: "_id", Value: k}})}
		case 7, 8:
			op := Op{K: "find", DB: "db", C: "k", F: jd(bson.D{})}
			if r.IntN(3) == 0 {
				// a projected read: builds its result beside the stored documents, which other readers are using
				op.P = jd(pick(r, bson.D{{Key: "n", Value: int32(1)}}, bson.D{{Key: "by", Value: int32(0)}}, bson.D{{Key: "_id", Value: int32(0)}, {Key: "by", Value: int32(1)}}))
			}
			return op
		case 9:
			return Op{K: "count", DB: "db", C: "k", F: jd(bson.D{{Key: "n", Value: bson.D{{Key: "$gte", Value: int32(1)}}}})}
		case 10:
			// no-op write
			return Op{K: "updateOne", DB: "db", C: "k", F: jd(bson.D{{Key: "_id", Value: int32(99)}}), U: jd(bson.D{{Key: "$inc", Value: bson.D{{Key: "n", Value: int32(1)}}}})}
		default:
			return Op{K: "replaceOne", DB: "db", C: "k", F: jd(bson.D{{Key: "_id", Value: k}}), D: jd(bson.D{{Key: "n", Value: int32(0)}, {Key: "by", Value: nextTag()}})}
		}
	}
	for ti := 0; ti < ntasks; ti++ {
		tp := TaskPlan{Name: fmt.Sprintf("client%d", ti)}
		for n := deepen(tier, seed, 1+r.IntN(5)); n > 0; n-- {
			var op Op
			switch k := r.IntN(10); {
			case k < 6:
				op = single()
				if r.IntN(12) == 0 {
					op.Ctx = "cancel"
				}
			case k < 9:
				// multi-document transaction: read-modify-write and transfers
				op = Op{K: pick(r, "s.txn", "s.with"), End: pick(r, "commit", "commit", "commit", "abort"), Tag: nextTag()}
				if op.K == "s.with" && op.End == "abort" {
					op.End = "error"
				}
				if r.IntN(5) < 2 {
					op.Sess = privSess // the session the task keeps across its transactions
				}
				for m := 1 + r.IntN(3); m > 0; m-- {
					switch r.IntN(4) {
					case 0, 1:
						op.Sub = append(op.Sub, Op{K: "rmw", DB: "db", C: "k", D: jd(bson.D{{Key: "_id", Value: key()}}), Tag: nextTag()})
					case 2:
						a, b := key(), key()
						op.Sub = append(op.Sub,
							Op{K: "updateOne", DB: "db", C: "k", F: jd(bson.D{{Key: "_id", Value: a}}), U: jd(bson.D{{Key: "$inc", Value: bson.D{{Key: "bal", Value: int32(-1)}}}}), Upsert: true},
							Op{K: "updateOne", DB: "db", C: "k", F: jd(bson.D{{Key: "_id", Value: b}}), U: jd(bson.D{{Key: "$inc", Value: bson.D{{Key: "bal", Value: int32(1)}}}}), Upsert: true})
					default:
						op.Sub = append(op.Sub, single())
					}
					if r.IntN(6) == 0 {
						// a cursor opened in the middle of the body and read at its end
						op.Sub = append(op.Sub, Op{K: "findLater", DB: "db", C: "k", F: jd(bson.D{})})
					}
				}
			default:
				op = Op{K: "sleep", Ms: int64(1 + r.IntN(300))}
			}
			tp.Ops = append(tp.Ops, op)
		}
		p.Tasks = append(p.Tasks, tp)
	}
	switch r.IntN(8) {
	case 0:
		p.Faults = append(p.Faults, Fault{Kind: "store-latency", At: r.IntN(6), Ms: int64(1 + r.IntN(2000))})
	case 1:
		p.Faults = append(p.Faults, Fault{Kind: "store-before", At: r.IntN(6)})
	case 2:
		p.Faults = append(p.Faults, Fault{Kind: "delay", At: r.IntN(80), Task: 1 + r.IntN(ntasks), N: 5 + r.IntN(50)})
	case 3:
		p.Faults = append(p.Faults, Fault{Kind: "store-slow-fail", At: r.IntN(6), Ms: int64(1 + r.IntN(2000))})
	}
	return p
}

// c04Unit is one atomic unit of the history: a single call or a whole transaction.
type c04Unit struct {
	call   *CallRec
	commit int // index into env.commits, -1 if the unit did not commit
}

func execC04(t *testing.T, plan *Plan) *Outcome {
	if plan.Cfg.Variant == "sharedtxn" {
		return execC04Shared(t, plan)
	}
	return execConc(t, plan, "C04", nil, nil)
}

// execC04Shared: the tasks increment counters inside one shared session
// transaction, then the transaction is committed. Model-free oracle: whatever
// the order, the k-th successful increment of a key returns k ("after"
// documents are distinct and within 1..k) and the committed counter equals the
// number of successful increments.
func execC04Shared(t *testing.T, plan *Plan) *Outcome {
	return runPlan(t, plan, func(e *Env) {
		e.monitors()
		sim := e.sim
		var actors []*actor
		ok := false
		var earlyErr error
		earlyDone := false
		sim.Go("setup", false, func(*simrt.Task) {
			if err := e.open(); err != nil {
				e.out.Harness = "open failed: " + err.Error()
				return
			}
			// a collection with expired documents under a TTL index, for the expiry passes of the members
			ttl := e.client.Database("db").Collection("ttl")
			_, err := ttl.Indexes().CreateOne(context.Background(), mongo.IndexModel{Keys: bson.D{{Key: "d", Value: int32(1)}}, Options: options.Index().SetExpireAfterSeconds(0)})
			for i := 0; i < 4 && err == nil; i++ {
				_, err = ttl.InsertOne(context.Background(), bson.D{{Key: "_id", Value: int32(i)}, {Key: "d", Value: primitive.NewDateTimeFromTime(time.Now().Add(-time.Hour))}})
			}
			if err != nil {
				e.out.Harness = "cannot prepare the TTL collection: " + err.Error()
				return
			}
			sess, err := e.client.StartSession()
			if err == nil {
				err = sess.StartTransaction()
			}
			if err != nil {
				e.out.Harness = "cannot start the shared transaction: " + err.Error()
				return
			}
			e.sharedSess = append(e.sharedSess, sess)
			ok = true
			for i, tp := range plan.Tasks {
				a := &actor{e: e, idx: i}
				actors = append(actors, a)
				ops := tp.Ops
				a.t = sim.Go(tp.Name, false, func(*simrt.Task) { a.run(ops) })
			}
			if plan.Cfg.CloseAtEnd {
				sim.Go("early-committer", false, func(*simrt.Task) {
					simrt.Yield("op:next")
					earlyErr = e.sharedSess[0].CommitTransaction(context.Background())
					earlyDone = true
				})
			}
		})
		sim.Run()
		if !ok || e.out.Harness != "" {
			return
		}
		e.out.Nontrivial = sim.ChoicePoints() > 0
		stalled := func(phase string) bool {
			if sim.PanicVal != nil || sim.Deadlock != "" || sim.TimeOut || sim.StepsOut {
				e.violate(violation("C16", "deadlock", "stall", fmt.Sprintf("shared transaction run did not finish (%s): panic=%v %s %s", phase, sim.PanicVal, sim.Deadlock, e.stallReport())))
				return true
			}
			return false
		}
		if stalled("members") {
			return
		}
		var cerr error
		if earlyDone {
			cerr = earlyErr
			e.probe("shared-transaction-committed-early")
		} else {
			sim.Go("committer", false, func(*simrt.Task) { cerr = e.sharedSess[0].CommitTransaction(context.Background()) })
			sim.Run()
			if stalled("commit") {
				return
			}
		}
		if cerr != nil {
			e.violate(violation("C04", "shared-transaction-commit-failed", "", fmt.Sprintf("committing the shared transaction failed: %v", cerr)))
			return
		}
		incs := map[string]int{}
		afters := map[string]map[int32]bool{}
		var owned []any // ids of documents written by exactly one acknowledged call
		for _, a := range actors {
			for _, c := range a.calls {
				if c.Op.K == "s.expire" {
					if c.Err != nil {
						e.violate(violation("C04", "shared-transaction-call-failed", "expire", fmt.Sprintf("an expiry pass on the shared transaction failed: %v", c.Err)))
						return
					}
					continue
				}
				if len(c.Op.Sub) == 0 {
					continue // (emptied by the minimiser)
				}
				sub := &c.Op.Sub[0]
				if sub.K == "find" {
					continue
				}
				if sub.K == "insertOne" || sub.K == "replaceOne" {
					if c.Err != nil {
						e.violate(violation("C04", "shared-transaction-call-failed", sub.K, fmt.Sprintf("%s inside the shared transaction failed: %v", opStr(sub), c.Err)))
						return
					}
					id := model.Get(sub.D.doc(), "_id")
					if sub.K == "replaceOne" {
						id = model.Get(sub.F.doc(), "_id")
					}
					owned = append(owned, id)
					continue
				}
				key := valStr(model.Get(sub.F.doc(), "_id"))
				if c.Err != nil {
					e.violate(violation("C04", "shared-transaction-call-failed", sub.K, fmt.Sprintf("%s inside the shared transaction failed: %v", opStr(sub), c.Err)))
					return
				}
				incs[key]++
				if sub.K == "updateOne" {
					if c.Res.Matched+c.Res.Upserted != 1 {
						e.violate(violation("C04", "lost-update", "shared-transaction-result", fmt.Sprintf("%s inside the shared transaction reports matched=%d upserted=%d", opStr(sub), c.Res.Matched, c.Res.Upserted)))
						return
					}
					continue
				}
				n, _ := model.Get(c.Res.Docs[0], "n").(int32)
				if afters[key] == nil {
					afters[key] = map[int32]bool{}
				}
				if afters[key][n] {
					e.violate(violation("C04", "lost-update", "shared-transaction", fmt.Sprintf("two increments of %s inside the shared transaction both returned n=%d", key, n)))
					return
				}
				afters[key][n] = true
			}
		}
		e.probe("shared-transaction-checked")
		final := map[string]int{}
		if len(e.commits) > 0 {
			cat := e.commits[len(e.commits)-1].Cat
			e.out.StateHash = stateFingerprint(cat)
			if c := cat.Namespaces[[2]string{"db", "k"}]; c != nil {
				for _, d := range c.Documents.List {
					dd := toD(d)
					n, _ := model.Get(dd, "n").(int32)
					final[valStr(model.Get(dd, "_id"))] = int(n)
				}
			}
		}
		for _, id := range owned {
			if _, ok := final[valStr(id)]; !ok {
				e.violate(violation("C04", "lost-update", "shared-transaction", fmt.Sprintf("a write of document %s was acknowledged inside the shared transaction, the committed collection does not have it", valStr(id))))
				return
			}
		}
		for key, want := range incs {
			if final[key] != want {
				e.violate(violation("C04", "lost-update", "shared-transaction", fmt.Sprintf("%d increments of %s succeeded inside the shared transaction, the committed counter is %d", want, key, final[key])))
				return
			}
			for n := range afters[key] {
				if n < 1 || int(n) > want {
					e.violate(violation("C04", "lost-update", "shared-transaction", fmt.Sprintf("an increment of %s returned n=%d although only %d increments were made", key, n, want)))
					return
				}
			}
		}
	})
}

// execConc runs concurrent client scripts and checks the history against the
// commit-order replay oracle. extraTasks may add tasks (snapshot takers);
// finalCheck runs after the history check.
func execConc(t *testing.T, plan *Plan, prop string, setup func(e *Env, actors []*actor), finalCheck func(e *Env, actors []*actor)) *Outcome {
	return runPlan(t, plan, func(e *Env) {
		e.monitors()
		sim := e.sim
		var actors []*actor
		cur := map[*simrt.Task]*actor{}
		commitOwner := map[int]*actor{}
		e.onCommit = append(e.onCommit, func(c *CommitRec) {
			if a := cur[c.Task]; a != nil {
				commitOwner[c.Seq] = a
				a.pendingCommits = append(a.pendingCommits, c.Seq)
			}
		})
		ok := false
		sim.Go("setup", false, func(*simrt.Task) {
			if err := e.open(); err != nil {
				e.out.Harness = "open failed: " + err.Error()
				return
			}
			ok = true
			for i, tp := range plan.Tasks {
				a := &actor{e: e, idx: i}
				actors = append(actors, a)
				ops := tp.Ops
				a.t = sim.Go(tp.Name, false, func(task *simrt.Task) { cur[task] = a; a.run(ops) })
			}
			if setup != nil {
				setup(e, actors)
			}
		})
		sim.Run()
		if !ok || e.out.Harness != "" {
			return
		}
		e.out.Nontrivial = sim.ChoicePoints() > 0
		if sim.PanicVal != nil || sim.Deadlock != "" || sim.TimeOut || sim.StepsOut {
			e.violate(violation("C16", "deadlock", "stall", fmt.Sprintf("concurrent run did not finish: panic=%v %s %s", sim.PanicVal, sim.Deadlock, e.stallReport())))
			return
		}
		c04Check(e, prop, actors)
		if finalCheck != nil && !e.failed() {
			finalCheck(e, actors)
		}
	})
}

// topLevel returns the atomic units of an actor in program order: calls made
// inside a transaction body belong to the transaction's unit.
func topLevel(a *actor) []*CallRec {
	var out []*CallRec
	for _, c := range a.calls {
		if !c.InTxn {
			out = append(out, c)
		}
	}
	return out
}

func c04Check(e *Env, prop string, actors []*actor) {
	// map commits to units
	byCommit := map[int]*CallRec{}
	var units []*CallRec
	for _, a := range actors {
		for _, c := range topLevel(a) {
			units = append(units, c)
			for _, k := range c.Commits {
				if prev, dup := byCommit[k]; dup && prev != c {
					e.violate(violation(prop, "commit-attribution", "", "one commit attributed to two calls"))
					return
				}
				byCommit[k] = c
			}
			if len(c.Commits) > 1 {
				e.violate(violation(prop, "call-committed-twice", c.Op.K, fmt.Sprintf("%s produced %d commits", opStr(c.Op), len(c.Commits))))
				return
			}
		}
	}
	// oracle 1: replay the committed units in commit order
	st := model.New()
	snaps := []*model.State{st.Clone()} // snaps[j] = model state after j commits
	for k, rec := range e.commits {
		u := byCommit[k]
		if u == nil {
			// a commit by the engine's own expiry task: nothing may change in this workload
			if d := compareState(st, rec.Cat); d != "" {
				e.violate(violation(prop, "foreign-commit-changed-state", "", fmt.Sprintf("commit %d by %s changed the data: %s", k, rec.Task.Name, d)))
				return
			}
			snaps = append(snaps, st.Clone())
			continue
		}
		if !(u.InvCom <= k && k < u.RetCom) {
			e.violate(violation(prop, "real-time-order", "", fmt.Sprintf("commit %d does not lie inside the call that made it (%d..%d)", k, u.InvCom, u.RetCom)))
			return
		}
		if d := c04Apply(st, u, true); d != "" {
			e.violate(violation(prop, "serial-replay-result", u.Op.K, fmt.Sprintf("replaying the committed calls in change-log order, %s returns something else than it returned in the run: %s", opStr(u.Op), d)))
			return
		}
		if d := compareState(st, rec.Cat); d != "" {
			e.violate(violation(prop, "serial-replay-state", u.Op.K, fmt.Sprintf("after replaying commit %d (%s by %s) serially: %s", k, opStr(u.Op), rec.Task.Name, d)))
			return
		}
		snaps = append(snaps, st.Clone())
	}
	// calls that did not commit must equal the model's answer on some state that was current during the call
	for _, u := range units {
		if len(u.Commits) > 0 || u.Op.K == "close" {
			continue
		}
		cls := classifyErr(u.Err)
		if cls == "store-fault" || cls == "ctx-cancelled" || cls == "ctx-deadline" {
			e.probe("uncommitted-by-fault")
			continue
		}
		isTxn := u.Op.K == "s.txn" || u.Op.K == "s.with"
		if isTxn {
			// a transaction ends in success, an injected fault, its callback's own error or a key conflict inside it;
			// anything else (a session that still holds a dead transaction, a lost writer slot) is the engine's doing
			// (errors of the calls inside the body are not propagated by the workload)
			if cls != "ok" && cls != "other:"+errCallback.Error() {
				e.violate(violation(prop, "transaction-failed", classKey(u.Err), fmt.Sprintf("%s failed with %v", opStr(u.Op), u.Err)))
				return
			}
		}
		// a call that reported success for a change must have committed it: applied for real, it may not change the model
		acked := u.Err == nil
		if isTxn {
			acked = u.TxnOK
		}
		okAt := -1
		var last string
		for j := u.InvCom; j <= u.RetCom && j < len(snaps); j++ {
			tmp := snaps[j].Clone()
			d := c04Apply(tmp, u, acked)
			if d == "" && acked && modelDump(tmp) != modelDump(snaps[j]) {
				d = "the call reported success for a change but no commit was made for it (its writes are nowhere)"
			}
			if d == "" {
				okAt = j
				break
			}
			last = d
		}
		if okAt < 0 {
			e.violate(violation(prop, "read-not-from-committed-prefix", u.Op.K, fmt.Sprintf("%s (no commit of its own) returned a result that no committed state current during the call (%d..%d commits) explains: %s", opStr(u.Op), u.InvCom, u.RetCom, last)))
			return
		}
		if u.RetCom > u.InvCom {
			e.probe("commit-during-read-window")
		}
	}
	// oracle 3: model-free conservation
	if len(e.commits) > 0 {
		final := e.commits[len(e.commits)-1].Cat
		e.out.StateHash = stateFingerprint(final)
		sum := int64(0)
		if c := final.Namespaces[[2]string{"db", "k"}]; c != nil {
			for _, d := range c.Documents.List {
				if v := model.Get(toD(d), "bal"); v != model.Missing {
					switch x := v.(type) {
					case int32:
						sum += int64(x)
					case int64:
						sum += x
					}
				}
			}
		}
		// deletes and replaces may remove balances: only check when no such call committed
		clean := true
		for _, u := range units {
			all := append([]*CallRec{u}, u.Subs...)
			for _, c := range all {
				if (c.Op.K == "deleteOne" || c.Op.K == "replaceOne") && len(u.Commits) > 0 {
					clean = false
				}
			}
		}
		if clean && sum != 0 {
			e.violate(violation(prop, "conservation", "", fmt.Sprintf("transfers conserve the sum of balances, the final sum is %d", sum)))
			return
		}
	}
	// oracle 2: independent linearizability check of short histories
	c04Porcupine(e, prop, units)
	hb := ""
	for k := range e.commits {
		if u := byCommit[k]; u != nil {
			hb += fmt.Sprintf("%d,", u.Task)
		}
	}
	e.out.HBHash = hash64(hb)
}

// c04Apply applies a unit to the model and compares the results of all its
// calls. committed says whether the unit's writes are to be kept.
func c04Apply(st *model.State, u *CallRec, committed bool) string {
	if u.Op.K == "s.txn" || u.Op.K == "s.with" {
		work := st
		if !committed {
			work = st.Clone()
		}
		for _, s := range u.Subs {
			want := applyModel(work, s.Op, &s.Res, time.Time{}, nil)
			if d := diffRes(s.Op.K, want, s.Res); d != "" {
				return fmt.Sprintf("inside the transaction %s: %s", opStr(s.Op), d)
			}
		}
		return ""
	}
	want := applyModel(st, u.Op, &u.Res, time.Time{}, nil)
	return diffRes(u.Op.K, want, u.Res)
}

type c04In struct{ u *CallRec }

func c04Porcupine(e *Env, prop string, units []*CallRec) {
	var ops []porcupine.Operation
	for _, u := range units {
		cls := classifyErr(u.Err)
		if cls == "store-fault" || cls == "ctx-cancelled" || cls == "ctx-deadline" || u.Op.K == "close" {
			continue
		}
		ops = append(ops, porcupine.Operation{ClientId: u.Task, Input: c04In{u}, Call: int64(u.Inv), Output: u, Return: int64(u.Ret)})
	}
	if len(ops) == 0 || len(ops) > 24 {
		e.probe("porcupine-skipped")
		return
	}
	m := porcupine.Model{
		Init: func() interface{} { return model.New() },
		Step: func(state, input, output interface{}) (bool, interface{}) {
			st := state.(*model.State).Clone()
			u := input.(c04In).u
			committed := len(u.Commits) > 0 || !(u.Op.K == "s.txn" || u.Op.K == "s.with")
			if d := c04Apply(st, u, committed); d != "" {
				return false, state
			}
			return true, st
		},
		Equal: func(a, b interface{}) bool {
			return modelDump(a.(*model.State)) == modelDump(b.(*model.State))
		},
	}
	switch porcupine.CheckOperationsTimeout(m, ops, 20*time.Second) {
	case porcupine.Illegal:
		e.probe("porcupine-illegal")
		e.violate(violation(prop, "not-linearizable", "", fmt.Sprintf("the invoke/return history of %d calls admits no sequential order that explains all results (porcupine)", len(ops))))
	case porcupine.Unknown:
		e.probe("porcupine-unknown")
	default:
		e.probe("porcupine-ok")
	}
}

func modelDump(st *model.State) string {
	s := ""
	for _, ns := range sortedNS(st) {
		c := st.Colls[ns]
		s += ns.String() + ":"
		for _, d := range c.Docs {
			s += string(model.Bytes(d)) + ";"
		}
		for _, ix := range c.Indexes {
			s += ix.Name + ","
		}
	}
	return s
}

func sortedNS(st *model.State) []model.NS {
	var out []model.NS
	for ns := range st.Colls {
		out = append(out, ns)
	}
	for i := 1; i < len(out); i++ {
		for j := i; j > 0 && out[j-1].String() > out[j].String(); j-- {
			out[j-1], out[j] = out[j], out[j-1]
		}
	}
	return out
}
