package harness

import (
	"fmt"
	"math/rand/v2"
	"time"

	"go.mongodb.org/mongo-driver/bson"
	"go.mongodb.org/mongo-driver/bson/primitive"
)

// gen generates values, documents, filters, updates and calls inside the
// value/operator domain of DESIGN.md section 8.
type gen struct {
	r       *rand.Rand
	colls   []string
	dbs     []string
	ids     int  // size of the _id key space
	collide bool // collision-rich values (C07)
	failing int  // percent of deliberately failing write shapes (C02)
	base    time.Time
	tag     int
	wide    int // percent of update calls that use operators outside the reference model's domain
	etxn    int // percent of calls that are scripted engine-level transactions
	last    *Op // the previous generated call (repeated verbatim now and then)
}

func newGen(r *rand.Rand) *gen {
	return &gen{r: r, colls: []string{"c0", "c1"}, dbs: []string{"db"}, ids: 5, base: time.Date(2000, 1, 1, 0, 0, 0, 0, time.UTC)}
}

func (g *gen) pct(p int) bool { return g.r.IntN(100) < p }

func (g *gen) num() any {
	n := g.r.IntN(5)
	switch g.r.IntN(6) {
	case 0:
		return int64(n)
	case 1:
		return float64(n)
	case 2:
		return float64(n) + 0.5
	}
	return int32(n)
}

func (g *gen) str() string { return pick(g.r, "x", "y", "z", "w") }

func (g *gen) date() primitive.DateTime {
	return primitive.NewDateTimeFromTime(g.base.Add(time.Duration(g.r.IntN(7200)-3600) * time.Second))
}

func (g *gen) scalar() any {
	switch g.r.IntN(8) {
	case 0:
		return g.str()
	case 1:
		return g.r.IntN(2) == 0
	case 2:
		return nil
	case 3:
		return g.date()
	}
	return g.num()
}

func (g *gen) arr() bson.A {
	n := g.r.IntN(4)
	out := bson.A{}
	for i := 0; i < n; i++ {
		if g.r.IntN(4) == 0 {
			out = append(out, g.str())
		} else {
			out = append(out, g.num())
		}
	}
	return out
}

func (g *gen) sub() bson.D {
	d := bson.D{}
	if g.pct(80) {
		d = append(d, bson.E{Key: "p", Value: g.num()})
	}
	if g.pct(60) {
		d = append(d, bson.E{Key: "q", Value: g.str()})
	}
	if g.pct(35) {
		d = append(d, bson.E{Key: "w", Value: g.arr()})
	}
	return d
}

func (g *gen) items() bson.A {
	out := bson.A{}
	for n := g.r.IntN(3); n > 0; n-- {
		out = append(out, bson.D{{Key: "k", Value: g.num()}, {Key: "v", Value: g.str()}})
	}
	return out
}

func (g *gen) id() any { return int32(g.r.IntN(g.ids)) }

// doc generates a document; withID=false leaves _id to the database.
func (g *gen) doc(withID bool) bson.D {
	d := bson.D{}
	if withID {
		d = append(d, bson.E{Key: "_id", Value: g.id()})
	}
	if g.pct(75) {
		d = append(d, bson.E{Key: "a", Value: g.num()})
	}
	if g.pct(45) {
		d = append(d, bson.E{Key: "b", Value: g.num()})
	}
	if g.pct(50) {
		d = append(d, bson.E{Key: "s", Value: g.str()})
	}
	if g.pct(45) {
		d = append(d, bson.E{Key: "t", Value: g.arr()})
	}
	if g.pct(40) {
		d = append(d, bson.E{Key: "o", Value: g.sub()})
	}
	if g.pct(25) {
		d = append(d, bson.E{Key: "items", Value: g.items()})
	}
	if g.pct(20) {
		d = append(d, bson.E{Key: "n", Value: nil})
	}
	if g.pct(25) {
		d = append(d, bson.E{Key: "d", Value: g.date()})
	}
	return d
}

func (g *gen) cmpOp() string { return pick(g.r, "$gt", "$gte", "$lt", "$lte") }

// simple returns one field condition.
func (g *gen) simple() bson.E {
	switch g.r.IntN(20) {
	case 0, 1:
		return bson.E{Key: "_id", Value: g.id()}
	case 2, 3:
		return bson.E{Key: "a", Value: g.num()}
	case 4:
		return bson.E{Key: "a", Value: bson.D{{Key: g.cmpOp(), Value: g.num()}}}
	case 5:
		return bson.E{Key: "s", Value: bson.D{{Key: "$in", Value: bson.A{g.str(), g.str()}}}}
	case 6:
		return bson.E{Key: "t", Value: g.num()}
	case 7:
		return bson.E{Key: "o.p", Value: g.num()}
	case 8:
		return bson.E{Key: "t", Value: bson.D{{Key: "$size", Value: int32(g.r.IntN(4))}}}
	case 9:
		return bson.E{Key: pick(g.r, "a", "b", "o", "o.q", "n"), Value: bson.D{{Key: "$exists", Value: g.r.IntN(2) == 0}}}
	case 10:
		return bson.E{Key: "a", Value: bson.D{{Key: "$not", Value: bson.D{{Key: g.cmpOp(), Value: g.num()}}}}}
	case 11:
		return bson.E{Key: "items", Value: bson.D{{Key: "$elemMatch", Value: bson.D{{Key: "k", Value: g.num()}}}}}
	case 12:
		return bson.E{Key: "items.k", Value: g.num()}
	case 13:
		return bson.E{Key: pick(g.r, "a", "s", "b"), Value: bson.D{{Key: "$ne", Value: g.scalarFor()}}}
	case 14:
		return bson.E{Key: "a", Value: bson.D{{Key: "$nin", Value: bson.A{g.num(), g.num()}}}}
	case 15:
		return bson.E{Key: "n", Value: nil}
	case 16:
		return bson.E{Key: "t", Value: bson.D{{Key: g.cmpOp(), Value: g.num()}}}
	case 17:
		return bson.E{Key: "b", Value: bson.D{{Key: "$gte", Value: g.num()}, {Key: "$lt", Value: g.num()}}}
	case 18:
		return bson.E{Key: "s", Value: g.str()}
	default:
		return bson.E{Key: "o.q", Value: g.str()}
	}
}

func (g *gen) scalarFor() any {
	if g.r.IntN(2) == 0 {
		return g.num()
	}
	return g.str()
}

// filter generates a filter of the core query domain.
func (g *gen) filter() bson.D {
	switch g.r.IntN(12) {
	case 0, 1:
		return bson.D{}
	case 2:
		return bson.D{{Key: pick(g.r, "$or", "$and", "$nor"), Value: bson.A{bson.D{g.simple()}, bson.D{g.simple()}}}}
	case 3:
		a, b := g.simple(), g.simple()
		if a.Key == b.Key {
			return bson.D{a}
		}
		return bson.D{a, b}
	}
	return bson.D{g.simple()}
}

// eqFilter generates a filter whose equality parts become an upsert seed.
func (g *gen) eqFilter() bson.D {
	switch g.r.IntN(5) {
	case 0:
		return bson.D{{Key: "_id", Value: g.id()}}
	case 1:
		return bson.D{{Key: "_id", Value: g.id()}, {Key: "a", Value: g.num()}}
	case 2:
		return bson.D{{Key: "a", Value: g.num()}, {Key: "o.p", Value: g.num()}}
	case 3:
		return bson.D{{Key: "s", Value: bson.D{{Key: "$eq", Value: g.str()}}}, {Key: "b", Value: bson.D{{Key: "$gt", Value: g.num()}}}}
	}
	return bson.D{{Key: "$and", Value: bson.A{bson.D{{Key: "_id", Value: g.id()}}, bson.D{{Key: "s", Value: g.str()}}}}}
}

func (g *gen) updOne() bson.E {
	switch g.r.IntN(18) {
	case 16:
		// through an array of documents / an array of scalars by position
		return bson.E{Key: pick(g.r, "$inc", "$set"), Value: bson.D{{Key: pick(g.r, "items.0.k", "items.1.k", "t.0", "t.2"), Value: g.num()}}}
	case 17:
		return bson.E{Key: "$set", Value: bson.D{{Key: pick(g.r, "items.0.v", "items.1.v"), Value: g.str()}}}
	case 0, 1:
		return bson.E{Key: "$set", Value: bson.D{{Key: pick(g.r, "a", "b"), Value: g.num()}}}
	case 2:
		return bson.E{Key: "$set", Value: bson.D{{Key: "s", Value: g.str()}}}
	case 3:
		return bson.E{Key: "$set", Value: bson.D{{Key: pick(g.r, "o.p", "o.r.z"), Value: g.num()}}}
	case 4:
		return bson.E{Key: "$inc", Value: bson.D{{Key: pick(g.r, "a", "b", "o.p", "cnt"), Value: g.num()}}}
	case 5:
		return bson.E{Key: "$mul", Value: bson.D{{Key: pick(g.r, "a", "b"), Value: g.num()}}}
	case 6:
		return bson.E{Key: pick(g.r, "$min", "$max"), Value: bson.D{{Key: pick(g.r, "a", "b"), Value: g.num()}}}
	case 7:
		return bson.E{Key: "$unset", Value: bson.D{{Key: pick(g.r, "a", "b", "s", "o.q", "n"), Value: ""}}}
	case 8:
		return bson.E{Key: "$push", Value: bson.D{{Key: "t", Value: g.num()}}}
	case 9:
		return bson.E{Key: "$push", Value: bson.D{{Key: "t", Value: bson.D{{Key: "$each", Value: bson.A{g.num(), g.num()}}}}}}
	case 10:
		return bson.E{Key: "$addToSet", Value: bson.D{{Key: "t", Value: g.num()}}}
	case 11:
		return bson.E{Key: "$pull", Value: bson.D{{Key: "t", Value: g.num()}}}
	case 12:
		return bson.E{Key: "$pop", Value: bson.D{{Key: "t", Value: pick(g.r, int32(1), int32(-1))}}}
	case 13:
		return bson.E{Key: "$rename", Value: bson.D{{Key: "b", Value: "c"}}}
	case 14:
		return bson.E{Key: "$currentDate", Value: bson.D{{Key: "d", Value: true}}}
	default:
		return bson.E{Key: "$setOnInsert", Value: bson.D{{Key: "ins", Value: g.num()}}}
	}
}

func updField(e bson.E) string { return e.Value.(bson.D)[0].Key }

// update generates an update document with one or two operators on different fields.
func (g *gen) update() bson.D {
	if g.failing > 0 && g.pct(g.failing) {
		return g.badUpdate()
	}
	a := g.updOne()
	if g.pct(35) {
		b := g.updOne()
		fa, fb := updField(a), updField(b)
		root := func(s string) string {
			for i, c := range s {
				if c == '.' {
					return s[:i]
				}
			}
			return s
		}
		if a.Key != b.Key && root(fa) != root(fb) && a.Key != "$rename" && b.Key != "$rename" {
			return bson.D{a, b}
		}
	}
	return bson.D{a}
}

// badUpdate generates an update that fails for (some) documents.
func (g *gen) badUpdate() bson.D {
	switch g.r.IntN(6) {
	case 0:
		return bson.D{{Key: "$inc", Value: bson.D{{Key: "s", Value: int32(1)}}}} // fails where s is a string
	case 1:
		return bson.D{{Key: "$push", Value: bson.D{{Key: "a", Value: int32(1)}}}} // fails where a is a number
	case 2:
		return bson.D{{Key: "$set", Value: bson.D{{Key: "a", Value: int32(1)}}}, {Key: "$inc", Value: bson.D{{Key: "a", Value: int32(1)}}}} // conflicting paths
	case 3:
		return bson.D{{Key: "$set", Value: bson.D{{Key: "_id", Value: int32(77)}}}} // immutable _id
	case 4:
		return bson.D{{Key: "$bogus", Value: bson.D{{Key: "a", Value: int32(1)}}}}
	default:
		return bson.D{{Key: "$set", Value: bson.D{{Key: "o.p.deep", Value: int32(1)}}}} // fails where o.p is a scalar
	}
}

// wideOne generates one update operator application outside the reference
// model's domain (DESIGN 8): $push modifiers, $pullAll, $bit, positional
// operators with and without array filters, numeric index paths, $rename into
// embedded documents. Such calls are judged by the model-free oracles only
// (change-log replay and update descriptions, index and uniqueness invariants,
// before/after dumps of failing calls). af receives array filters.
func (g *gen) wideOne(af *[]bson.D) (op bson.E, root string) {
	n32 := func() int32 { return int32(g.r.IntN(5)) }
	item := func() bson.D { return bson.D{{Key: "k", Value: g.num()}, {Key: "v", Value: g.str()}} }
	switch g.r.IntN(24) {
	case 0:
		return bson.E{Key: "$push", Value: bson.D{{Key: "t", Value: bson.D{{Key: "$each", Value: bson.A{g.num(), g.num()}}, {Key: "$position", Value: pick(g.r, int32(0), int32(1), int32(-1), int32(7))}}}}}, "t"
	case 1, 2:
		return bson.E{Key: "$push", Value: bson.D{{Key: "t", Value: bson.D{{Key: "$each", Value: bson.A{g.num(), g.num()}}, {Key: "$slice", Value: pick(g.r, int32(-2), int32(0), int32(1), int32(2), int32(3), int32(6))}}}}}, "t"
	case 3:
		return bson.E{Key: "$push", Value: bson.D{{Key: "t", Value: bson.D{{Key: "$each", Value: bson.A{g.num()}}, {Key: "$sort", Value: pick(g.r, int32(1), int32(-1))}}}}}, "t"
	case 4:
		return bson.E{Key: "$push", Value: bson.D{{Key: "items", Value: bson.D{{Key: "$each", Value: bson.A{item()}}, {Key: "$sort", Value: bson.D{{Key: "k", Value: pick(g.r, int32(1), int32(-1))}}}, {Key: "$slice", Value: pick(g.r, int32(2), int32(3), int32(-2))}}}}}, "items"
	case 5:
		return bson.E{Key: "$push", Value: bson.D{{Key: "t", Value: bson.D{{Key: "$each", Value: bson.A{g.num(), g.num(), g.num()}}, {Key: "$position", Value: int32(1)}, {Key: "$slice", Value: pick(g.r, int32(2), int32(4), int32(-3))}}}}}, "t"
	case 6:
		return bson.E{Key: "$pullAll", Value: bson.D{{Key: "t", Value: bson.A{g.num(), g.num()}}}}, "t"
	case 7:
		return bson.E{Key: "$bit", Value: bson.D{{Key: pick(g.r, "a", "b", "cnt", "o.p"), Value: bson.D{{Key: pick(g.r, "and", "or", "xor"), Value: pick[any](g.r, int32(1), int32(6), int64(3))}}}}}, ""
	case 8:
		return bson.E{Key: "$inc", Value: bson.D{{Key: "t.$[]", Value: n32()}}}, "t" // fails where t holds a string
	case 9:
		return bson.E{Key: "$set", Value: bson.D{{Key: "items.$[].v", Value: g.str()}}}, "items"
	case 10:
		*af = append(*af, bson.D{{Key: "e.k", Value: bson.D{{Key: "$gte", Value: g.num()}}}})
		return bson.E{Key: "$set", Value: bson.D{{Key: "items.$[e].v", Value: g.str()}}}, "items"
	case 11:
		*af = append(*af, bson.D{{Key: "f", Value: bson.D{{Key: pick(g.r, "$gte", "$lt"), Value: g.num()}}}})
		return bson.E{Key: pick(g.r, "$inc", "$mul"), Value: bson.D{{Key: "t.$[f]", Value: n32()}}}, "t"
	case 12:
		return bson.E{Key: "$set", Value: bson.D{{Key: pick(g.r, "t.0", "t.1", "t.4"), Value: g.num()}}}, "t"
	case 13:
		return bson.E{Key: "$unset", Value: bson.D{{Key: pick(g.r, "t.0", "t.1", "items.0.v"), Value: ""}}}, ""
	case 14:
		return bson.E{Key: pick(g.r, "$set", "$min", "$max"), Value: bson.D{{Key: pick(g.r, "items.0.k", "items.1.k"), Value: g.num()}}}, "items"
	case 15:
		return bson.E{Key: "$inc", Value: bson.D{{Key: pick(g.r, "items.0.k", "t.0", "t.2"), Value: n32()}}}, ""
	case 16:
		return bson.E{Key: "$addToSet", Value: bson.D{{Key: "t", Value: bson.D{{Key: "$each", Value: bson.A{g.num(), g.num(), g.str()}}}}}}, "t"
	case 17:
		return bson.E{Key: "$pull", Value: bson.D{{Key: "t", Value: bson.D{{Key: pick(g.r, "$gte", "$lt", "$in"), Value: pick[any](g.r, g.num(), g.num())}}}}}, "t"
	case 18:
		return bson.E{Key: "$pull", Value: bson.D{{Key: "items", Value: bson.D{{Key: "k", Value: g.num()}}}}}, "items"
	case 19:
		return bson.E{Key: "$rename", Value: bson.D{{Key: pick(g.r, "a", "s"), Value: pick(g.r, "o.ren", "ren")}}}, "rename"
	case 20:
		return bson.E{Key: "$rename", Value: bson.D{{Key: "o.p", Value: pick(g.r, "p2", "o.p2")}}}, "rename"
	case 21:
		return bson.E{Key: "$set", Value: bson.D{{Key: "items", Value: bson.A{item(), item()}}}}, "items"
	case 22:
		return bson.E{Key: "$pop", Value: bson.D{{Key: "items", Value: pick(g.r, int32(1), int32(-1))}}}, "items"
	default:
		return bson.E{Key: "$push", Value: bson.D{{Key: "items", Value: item()}}}, "items"
	}
}

// wideUpdate combines one to three wide (and ordinary) operators on different fields.
func (g *gen) wideUpdate() (bson.D, []bson.D) {
	var af []bson.D
	var out bson.D
	roots := map[string]bool{}
	ops := map[string]bool{}
	for n := 1 + g.r.IntN(3); n > 0; n-- {
		var e bson.E
		var root string
		if len(out) > 0 && g.pct(40) {
			e = g.updOne()
			root = updField(e)
			for i, c := range root {
				if c == '.' {
					root = root[:i]
					break
				}
			}
		} else {
			naf := len(af)
			e, root = g.wideOne(&af)
			if root == "" {
				root = updField(e)
				for i, c := range root {
					if c == '.' {
						root = root[:i]
						break
					}
				}
			}
			if roots[root] || ops[e.Key] || roots["rename"] || (root == "rename" && len(out) > 0) {
				af = af[:naf]
				continue
			}
		}
		if roots[root] || ops[e.Key] || roots["rename"] || e.Key == "$rename" && len(out) > 0 && root != "rename" {
			continue
		}
		roots[root], ops[e.Key] = true, true
		out = append(out, e)
	}
	if len(out) == 0 {
		e, _ := g.wideOne(&af)
		out = bson.D{e}
	}
	return out, af
}

// engineTxn generates a scripted engine-level transaction (Begin, Transaction.* steps, Commit/Abort). It is
// judged by the model-free oracles only (Op.Wide).
func (g *gen) engineTxn(db, c string) Op {
	op := Op{K: "e.txn", DB: db, C: c, Wide: true, End: pick(g.r, "commit", "commit", "commit", "commit", "abort")}
	for n := 2 + g.r.IntN(4); n > 0; n-- {
		var st Op
		switch g.r.IntN(12) {
		case 0, 1, 2:
			st = Op{K: "t.insert", D: jd(g.doc(true))}
		case 3:
			st = Op{K: "t.insert", Ordered: g.pct(50)}
			for k := 2 + g.r.IntN(2); k > 0; k-- {
				st.Docs = append(st.Docs, jd(g.doc(true)))
			}
		case 4, 5, 6:
			st = Op{K: "t.update", F: jd(pick(g.r, bson.D{}, g.filter())), U: jd(g.update()), After: g.pct(60), Upsert: g.pct(15)}
			if g.pct(30) {
				// shift a (possibly unique) key: collides at some document
				st.U = jd(bson.D{{Key: pick(g.r, "$set", "$inc"), Value: bson.D{{Key: pick(g.r, "a", "b"), Value: int32(1)}}}})
			}
		case 7:
			st = Op{K: "t.delete", F: jd(g.filter()), Limit: g.r.IntN(2)}
		case 8, 9:
			st = Op{K: "t.createIndex", D: jd(bson.D{{Key: pick(g.r, "a", "b", "s", "t", "o.p"), Value: int32(1)}}), Unique: g.pct(70)}
		case 10:
			st = Op{K: "t.dropIndex", Name: pick(g.r, "a_1", "b_1", "s_1", "t_1", "o.p_1", "nope")}
		default:
			st = Op{K: "t.update", F: jd(bson.D{}), U: jd(g.badUpdate()), After: true}
		}
		st.DB, st.C = db, c
		op.Items = append(op.Items, st)
		if g.pct(8) {
			// a questionable document (MongoDB refuses an array as _id) for a collection that does not exist,
			// after earlier steps: whether it is taken or refused, a refusal must leave the transaction's
			// catalog as it was - no empty collection either
			op.Items = append(op.Items, Op{K: "t.insert", DB: db, C: "c9", D: jd(bson.D{{Key: "_id", Value: bson.A{int32(7)}}, {Key: "a", Value: int32(1)}})})
		}
	}
	return op
}

// widen turns an update call into a wide one with probability g.wide percent.
func (g *gen) widen(op Op) Op {
	if g.wide == 0 || !g.pct(g.wide) {
		return op
	}
	switch op.K {
	case "updateOne", "updateMany", "findOneAndUpdate":
	default:
		return op
	}
	u, af := g.wideUpdate()
	op.U, op.Wide, op.AF = jd(u), true, nil
	if g.pct(60) {
		// make the update hit something
		if op.K == "updateMany" {
			op.F = jd(bson.D{})
		} else {
			op.F = jd(bson.D{{Key: "_id", Value: g.id()}})
		}
	}
	for _, f := range af {
		op.AF = append(op.AF, jd(f))
	}
	return op
}

func (g *gen) sortSpec() bson.D {
	switch g.r.IntN(5) {
	case 0:
		return bson.D{{Key: "a", Value: int32(1)}}
	case 1:
		return bson.D{{Key: "a", Value: int32(-1)}}
	case 2:
		return bson.D{{Key: "s", Value: int32(1)}, {Key: "a", Value: int32(-1)}}
	case 3:
		return bson.D{{Key: "t", Value: pick(g.r, int32(1), int32(-1))}}
	}
	return bson.D{{Key: "_id", Value: int32(-1)}}
}

func (g *gen) proj() bson.D {
	switch g.r.IntN(11) {
	// array windows and first-match projections: the window is cut from the stored array and laid over the
	// projected copy, which must not reach the stored document
	case 6:
		return bson.D{{Key: "t", Value: bson.D{{Key: "$slice", Value: pick(g.r, int32(-2), int32(-1), int32(0), int32(1), int32(2), int32(5))}}}}
	case 7:
		return bson.D{{Key: "t", Value: bson.D{{Key: "$slice", Value: bson.A{pick(g.r, int32(-3), int32(-1), int32(0), int32(1), int32(2)), pick(g.r, int32(1), int32(2), int32(3))}}}}, {Key: "s", Value: int32(0)}}
	case 8:
		// the window lies inside an embedded document that is included as a whole
		return bson.D{{Key: "o", Value: int32(1)}, {Key: "o.w", Value: bson.D{{Key: "$slice", Value: pick(g.r, int32(1), int32(-1), int32(2))}}}}
	case 9:
		return bson.D{{Key: "o.w", Value: bson.D{{Key: "$slice", Value: pick(g.r, int32(1), int32(-1), int32(0))}}}}
	case 10:
		return bson.D{{Key: "items", Value: bson.D{{Key: "$elemMatch", Value: bson.D{{Key: "k", Value: g.num()}}}}}}
	case 4:
		// exclusion inside an embedded document (the stored document must stay whole)
		return bson.D{{Key: "o.p", Value: int32(0)}}
	case 5:
		return bson.D{{Key: "o.q", Value: int32(0)}, {Key: "s", Value: int32(0)}}
	case 0:
		return bson.D{{Key: "a", Value: int32(1)}}
	case 1:
		return bson.D{{Key: "s", Value: int32(0)}}
	case 2:
		return bson.D{{Key: "_id", Value: int32(0)}, {Key: "o.p", Value: int32(1)}}
	}
	return bson.D{{Key: "t", Value: int32(0)}, {Key: "o", Value: int32(0)}}
}

func (g *gen) coll() (string, string) { return pick(g.r, g.dbs...), pick(g.r, g.colls...) }

func (g *gen) indexOp(db, c string) Op {
	switch g.r.IntN(18) {
	// the same name and key with different options: a conflicting definition must be refused
	case 12:
		return Op{K: "createIndex", DB: db, C: c, D: jd(bson.D{{Key: "b", Value: int32(1)}}), Unique: g.pct(50)}
	case 13:
		return Op{K: "createIndex", DB: db, C: c, D: jd(bson.D{{Key: "a", Value: int32(1)}}), Unique: g.pct(50), P: jd(bson.D{{Key: "b", Value: bson.D{{Key: "$gt", Value: int32(1)}}}})}
	case 14:
		return Op{K: "createIndex", DB: db, C: c, D: jd(bson.D{{Key: "b", Value: int32(1)}}), Unique: true, P: jd(bson.D{{Key: "a", Value: bson.D{{Key: "$gt", Value: int32(2)}}}})}
	case 15:
		ttl := int32(pick(g.r, 0, 60))
		return Op{K: "createIndex", DB: db, C: c, D: jd(bson.D{{Key: "d", Value: int32(1)}}), TTL: &ttl, Unique: g.pct(30)}
	case 17:
		// a descending leading key
		return Op{K: "createIndex", DB: db, C: c, D: jd(bson.D{{Key: pick(g.r, "a", "b"), Value: int32(-1)}}), Unique: g.pct(70)}
	case 16:
		// expiry is a single-field option
		ttl := int32(pick(g.r, 0, 60))
		return Op{K: "createIndex", DB: db, C: c, D: jd(bson.D{{Key: "d", Value: int32(1)}, {Key: "a", Value: int32(1)}}), TTL: &ttl}
	case 0:
		return Op{K: "createIndex", DB: db, C: c, D: jd(bson.D{{Key: "a", Value: int32(1)}})}
	case 1:
		return Op{K: "createIndex", DB: db, C: c, D: jd(bson.D{{Key: "a", Value: int32(1)}}), Unique: true}
	case 2:
		return Op{K: "createIndex", DB: db, C: c, D: jd(bson.D{{Key: "s", Value: int32(1)}, {Key: "b", Value: int32(-1)}}), Unique: g.pct(50)}
	case 3:
		return Op{K: "createIndex", DB: db, C: c, D: jd(bson.D{{Key: "t", Value: int32(1)}}), Unique: g.pct(50)}
	case 4:
		return Op{K: "createIndex", DB: db, C: c, D: jd(bson.D{{Key: "b", Value: int32(1)}}), Unique: true, P: jd(bson.D{{Key: "a", Value: bson.D{{Key: "$gt", Value: int32(1)}}}})}
	case 5:
		return Op{K: "createIndex", DB: db, C: c, D: jd(bson.D{{Key: "o.p", Value: int32(1)}}), Unique: g.pct(50), Name: pick(g.r, "", "opx")}
	case 6:
		ttl := int32(pick(g.r, 0, 60, 3600))
		return Op{K: "createIndex", DB: db, C: c, D: jd(bson.D{{Key: "d", Value: int32(1)}}), TTL: &ttl}
	case 7:
		return Op{K: "dropIndex", DB: db, C: c, Name: pick(g.r, "a_1", "t_1", "s_1_b_-1", "b_1", "o.p_1", "opx", "d_1", "nope", "_id_", "a_-1", "b_-1")}
	case 8:
		return Op{K: "dropIndexKey", DB: db, C: c, D: jd(bson.D{{Key: pick(g.r, "a", "t", "b", "d", "_id"), Value: int32(1)}})}
	case 9:
		return Op{K: "dropAllIndexes", DB: db, C: c}
	case 10:
		return Op{K: "createIndex", DB: db, C: c, D: jd(bson.D{{Key: "s", Value: int32(1)}}), Name: "opx"} // name clash candidate
	default:
		return Op{K: "listIndexes", DB: db, C: c}
	}
}

func (g *gen) bulkItem() Op {
	switch g.r.IntN(7) {
	case 0, 1:
		return Op{K: "insert", D: jd(g.doc(true))}
	case 2:
		return Op{K: "updateOne", F: jd(g.filter()), U: jd(g.update()), Upsert: g.pct(25)}
	case 3:
		return Op{K: "updateMany", F: jd(g.filter()), U: jd(g.update())}
	case 4:
		return Op{K: "replace", F: jd(g.filter()), D: jd(g.doc(g.pct(30))), Upsert: g.pct(25)}
	case 5:
		return Op{K: "deleteOne", F: jd(g.filter())}
	}
	return Op{K: "deleteMany", F: jd(g.filter())}
}

// crud generates one driver-level call.
func (g *gen) crud() Op {
	if g.last != nil && g.pct(5) {
		// the same call again (the "save" idiom, retries): the second time most writes are no-ops
		return *g.last
	}
	if g.etxn > 0 && g.pct(g.etxn) {
		db, c := g.coll()
		return g.engineTxn(db, c)
	}
	op := g.widen(g.crudPlain())
	if op.K != "dropDB" && op.K != "dropColl" {
		cp := op
		g.last = &cp
	}
	return op
}

func (g *gen) crudPlain() Op {
	db, c := g.coll()
	switch k := g.r.IntN(100); {
	case k < 14:
		return Op{K: "insertOne", DB: db, C: c, D: jd(g.doc(g.pct(85)))}
	case k < 20:
		n := 2 + g.r.IntN(3)
		op := Op{K: "insertMany", DB: db, C: c, Ordered: g.pct(50)}
		for i := 0; i < n; i++ {
			op.Docs = append(op.Docs, jd(g.doc(g.pct(90))))
		}
		return op
	case k < 28:
		op := Op{K: "find", DB: db, C: c, F: jd(g.filter())}
		if g.pct(40) {
			op.S = jd(g.sortSpec())
		}
		if g.pct(25) {
			op.Skip = g.r.IntN(3)
		}
		if g.pct(25) {
			op.Limit = 1 + g.r.IntN(3)
		}
		if g.pct(20) {
			op.P = jd(g.proj())
		}
		return op
	case k < 32:
		op := Op{K: "findOne", DB: db, C: c, F: jd(g.filter())}
		if g.pct(40) {
			op.S = jd(g.sortSpec())
		}
		if g.pct(20) {
			op.Skip = g.r.IntN(2)
		}
		return op
	case k < 36:
		op := Op{K: "count", DB: db, C: c, F: jd(g.filter())}
		if g.pct(20) {
			op.Skip = g.r.IntN(2)
			op.Limit = g.r.IntN(3)
		}
		return op
	case k < 38:
		return Op{K: "estCount", DB: db, C: c}
	case k < 42:
		return Op{K: "distinct", DB: db, C: c, Field: pick(g.r, "a", "s", "t", "o.p"), F: jd(g.filter())}
	case k < 52:
		f := g.filter()
		up := g.pct(25)
		if up {
			f = g.eqFilter()
		}
		return Op{K: "updateOne", DB: db, C: c, F: jd(f), U: jd(g.update()), Upsert: up}
	case k < 60:
		return Op{K: "updateMany", DB: db, C: c, F: jd(g.filter()), U: jd(g.update()), Upsert: g.pct(10)}
	case k < 66:
		up := g.pct(30)
		f := g.filter()
		if up {
			f = g.eqFilter()
		}
		return Op{K: "replaceOne", DB: db, C: c, F: jd(f), D: jd(g.doc(g.pct(30))), Upsert: up}
	case k < 70:
		return Op{K: "deleteOne", DB: db, C: c, F: jd(g.filter())}
	case k < 73:
		return Op{K: "deleteMany", DB: db, C: c, F: jd(g.filter())}
	case k < 78:
		op := Op{K: "findOneAndUpdate", DB: db, C: c, F: jd(g.filter()), U: jd(g.update()), After: g.pct(50), Upsert: g.pct(20)}
		if op.Upsert {
			op.F = jd(g.eqFilter())
		}
		if g.pct(40) {
			op.S = jd(g.sortSpec())
		}
		if g.pct(15) {
			op.P = jd(g.proj())
		}
		return op
	case k < 81:
		op := Op{K: "findOneAndReplace", DB: db, C: c, F: jd(g.filter()), D: jd(g.doc(g.pct(30))), After: g.pct(50), Upsert: g.pct(20)}
		if g.pct(40) {
			op.S = jd(g.sortSpec())
		}
		return op
	case k < 84:
		op := Op{K: "findOneAndDelete", DB: db, C: c, F: jd(g.filter())}
		if g.pct(40) {
			op.S = jd(g.sortSpec())
		}
		return op
	case k < 89:
		op := Op{K: "bulk", DB: db, C: c, Ordered: g.pct(50)}
		for n := 1 + g.r.IntN(4); n > 0; n-- {
			op.Items = append(op.Items, g.bulkItem())
		}
		return op
	case k < 95:
		return g.indexOp(db, c)
	case k < 96:
		return Op{K: "createColl", DB: db, C: c}
	case k < 97:
		return Op{K: "dropColl", DB: db, C: c}
	case k < 98:
		return Op{K: "dropDB", DB: db}
	case k < 99:
		return Op{K: "listColls", DB: db}
	}
	return Op{K: "listDBs"}
}

func (g *gen) nextTag() string { g.tag++; return fmt.Sprintf("t%d", g.tag) }

// seedOps fills the collections with a few documents so that later calls have material.
func (g *gen) seedOps(pct int) []Op {
	var ops []Op
	for _, db := range g.dbs {
		for _, c := range g.colls {
			if !g.pct(pct) {
				continue
			}
			op := Op{K: "insertMany", DB: db, C: c}
			for n := 2 + g.r.IntN(5); n > 0; n-- {
				op.Docs = append(op.Docs, jd(g.doc(true)))
			}
			ops = append(ops, op)
		}
	}
	return ops
}
