package harness

import (
	"context"
	"fmt"
	"math"
	"testing"

	"github.com/256dpi/lungo"
	"github.com/256dpi/lungo/bsonkit"
	"go.mongodb.org/mongo-driver/bson"
	"go.mongodb.org/mongo-driver/bson/primitive"

	"verif/harness/model"
)

// C06 - persist-and-reload returns the identical database.

func init() {
	register(&Property{ID: "C06", Gen: genC06, Exec: func(t *testing.T, p *Plan) *Outcome {
		return execSeq(t, p, seqHooks{prop: "C06", model: false, restarted: c06Restarted, final: func(e *Env, st *model.State) {
			// every run ends with a reload
			before := e.engine.Catalog()
			e.engine.Close()
			e.freshProcess()
			if err := e.open(); err != nil {
				e.violate(violation("C06", "reopen-failed", "", fmt.Sprintf("reopening the database failed: %v", err)))
				return
			}
			c06Restarted(e, st, before, e.engine.Catalog())
		}})
	}})
}

func dec128(s string) primitive.Decimal128 {
	d, err := primitive.ParseDecimal128(s)
	if err != nil {
		panic(err)
	}
	return d
}

// richVal draws from the rich value pool of DESIGN.md section 8 (values are only stored and read back).
func richVal(r interface{ IntN(int) int }, depth int) any {
	switch r.IntN(34) {
	case 0:
		return math.NaN()
	case 1:
		return math.Copysign(0, -1)
	case 2:
		return math.Inf(1)
	case 3:
		return math.Inf(-1)
	case 4:
		return 1.7976931348623157e308
	case 5:
		return 5e-324
	case 6:
		return int64(math.MaxInt64)
	case 7:
		return int64(math.MinInt64)
	case 8:
		return int32(math.MinInt32)
	case 9:
		return int64(1) << 53
	case 10:
		return dec128(pick(r, "1.5", "NaN", "Infinity", "-Infinity", "-0", "0E-6176", "9.999999999999999999999999999999999E+6144", "1E-6176", "123456789012345678901234567890.1234"))
	case 11:
		return primitive.Binary{Subtype: byte(pick(r, 0x00, 0x01, 0x04, 0x05, 0x80, 0xff)), Data: []byte{0, 1, 2, 255}}
	case 12:
		return primitive.Binary{Subtype: 0x00, Data: []byte{}}
	case 13:
		return primitive.Timestamp{T: uint32(r.IntN(1 << 30)), I: uint32(r.IntN(100))}
	case 14:
		return primitive.Regex{Pattern: pick(r, "^a.*b$", "", "x|y"), Options: pick(r, "", "i", "imsx")}
	case 15:
		return bson.A{}
	case 16:
		return bson.D{}
	case 17:
		return nil
	case 18:
		return primitive.DateTime(pick(r, int64(0), -1, 253402300799999, -62135596800000))
	case 19:
		return primitive.ObjectID{1, 2, 3, 4, 5, 6, 7, 8, 9, 10, 11, byte(r.IntN(256))}
	case 20:
		return pick(r, "", "ünïcödé ✓", "a\x00b", "$dollar", "dot.ted")
	case 21:
		return r.IntN(2) == 0
	case 22:
		return float64(r.IntN(1000)) / 8
	case 23:
		return int32(r.IntN(1000) - 500)
	case 24, 25:
		if depth < 3 {
			a := bson.A{}
			for n := r.IntN(4); n > 0; n-- {
				a = append(a, richVal(r, depth+1))
			}
			return a
		}
		return bson.A{bson.A{}, bson.A{int32(1)}}
	case 26, 27:
		if depth < 3 {
			d := bson.D{}
			for n := r.IntN(4); n > 0; n-- {
				d = append(d, bson.E{Key: pick(r, "x", "y", "z", "", "a b", "0"), Value: richVal(r, depth+1)})
			}
			return d
		}
		return bson.D{{Key: "deep", Value: bson.D{}}}
	case 28:
		return dec128(pick(r, "0.1", "-1E+10", "7"))
	case 29:
		return int32(math.MaxInt32)
	case 30:
		return -1.7976931348623157e308
	case 31:
		return primitive.Timestamp{T: math.MaxUint32, I: math.MaxUint32}
	case 32:
		return int64(-1) << 62
	default:
		return float64(float32(0.1))
	}
}

func genC06(seed uint64, run int, tier string) *Plan {
	r := newRNG(seed, 6)
	g := newGen(r)
	p := &Plan{Prop: "C06", Seed: seed, Run: run, Cfg: seqCfg(r)}
	p.Cfg.Store = "file"
	p.Cfg.BlockSize = pick(r, 512, 4096, 65536)
	retention := r.IntN(2) == 0
	if retention {
		// small retention settings and short ages, so that commits really trim the change log
		// (what is persisted must be the trimmed log the engine continues with)
		p.Cfg.MinOplog, p.Cfg.MaxOplog = 1+r.IntN(4), 5+r.IntN(5)
		p.Cfg.MinAgeS, p.Cfg.MaxAgeS = 1, pick(r, int64(2), 5, 3600)
	}
	colls := []string{"c0", "c1"}
	dbs := []string{"db", "other"}
	rich := func(withID bool) bson.D {
		d := g.doc(withID)
		for n := 1 + r.IntN(4); n > 0; n-- {
			d = append(d, bson.E{Key: fmt.Sprintf("r%d", n), Value: richVal(r, 0)})
		}
		if r.IntN(3) == 0 {
			// field order matters: shuffle
			for i := len(d) - 1; i > 1; i-- {
				j := 1 + r.IntN(i)
				d[i], d[j] = d[j], d[i]
			}
		}
		return d
	}
	tp := TaskPlan{Name: "client"}
	n := deepen(tier, seed, 3+r.IntN(14))
	for i := 0; i < n; i++ {
		db, c := pick(r, dbs...), pick(r, colls...)
		var op Op
		switch k := r.IntN(20); {
		case k < 7:
			op = Op{K: "insertOne", DB: db, C: c, D: jd(rich(r.IntN(5) != 0))}
		case k < 9:
			op = Op{K: "insertMany", DB: db, C: c, Ordered: r.IntN(2) == 0}
			for m := 2 + r.IntN(4); m > 0; m-- {
				op.Docs = append(op.Docs, jd(rich(true)))
			}
		case k < 11:
			op = Op{K: "updateOne", DB: db, C: c, F: jd(bson.D{{Key: "_id", Value: g.id()}}), U: jd(bson.D{{Key: "$set", Value: bson.D{{Key: pick(r, "r1", "r2", "z.deep"), Value: richVal(r, 0)}}}}), Upsert: r.IntN(3) == 0}
		case k < 12:
			op = Op{K: "replaceOne", DB: db, C: c, F: jd(bson.D{{Key: "_id", Value: g.id()}}), D: jd(rich(false)), Upsert: r.IntN(3) == 0}
		case k < 13:
			op = Op{K: "deleteOne", DB: db, C: c, F: jd(bson.D{{Key: "_id", Value: g.id()}})}
		case k < 17:
			op = g.indexOp(db, c)
			if op.K == "createIndex" && r.IntN(3) == 0 {
				op.Name = pick(r, "", "custom", "idx with space")
			}
		case k < 18:
			op = Op{K: "dropColl", DB: db, C: c}
		case k < 19:
			op = Op{K: "createColl", DB: db, C: pick(r, "c0", "c1", "empty", "dotted.name")}
		default:
			op = Op{K: "sleep", Ms: int64(1 + r.IntN(3000))}
		}
		tp.Ops = append(tp.Ops, op)
		if r.IntN(25) == 0 {
			// everything dropped: the file must then hold the empty database (and the drop events), not the last
			// non-empty image
			for _, d := range dbs {
				tp.Ops = append(tp.Ops, Op{K: "dropDB", DB: d})
			}
			tp.Ops = append(tp.Ops, Op{K: "restart"})
		}
		if retention && r.IntN(4) == 0 {
			tp.Ops = append(tp.Ops, Op{K: "sleep", Ms: int64(1100 + r.IntN(5000))})
		}
		if r.IntN(6) == 0 {
			tp.Ops = append(tp.Ops, Op{K: "restart"})
		}
	}
	if r.IntN(5) == 0 {
		// one or two commits fail before anything is persisted (the store answers with an error): the call reports
		// the error, and what the engine serves afterwards must still be what the next reload returns - a write
		// that stays visible without having been stored shows as a difference at the next restart or at the end
		// (drawn last, so that the operations of a run are the same with and without the fault)
		for k := 1 + r.IntN(2); k > 0; k-- {
			p.Faults = append(p.Faults, Fault{Kind: "store-before", At: r.IntN(n + 1)})
		}
	}
	p.Tasks = []TaskPlan{tp}
	return p
}

// enforcement probes: for every unique index, does a copy of an existing document (fresh _id) get rejected?
func c06Probe(e *Env) string {
	out := ""
	cat := e.engine.Catalog()
	for _, h := range handles(cat) {
		if h == lungo.Oplog {
			continue
		}
		c := cat.Namespaces[h]
		for _, name := range indexNames(c) {
			if !c.Indexes[name].Config().Unique && name != "_id_" {
				continue
			}
			for i, d := range c.Documents.List {
				if i >= 3 {
					break
				}
				probe := toD(d)
				if name != "_id_" {
					// (for the _id index the probe is the copy itself: same _id)
					probe[0].Value = primitive.ObjectID{9, 9, 9, 9, 9, 9, 9, 9, 9, 9, 9, byte(i)}
				}
				txn, err := e.engine.Begin(context.Background(), true)
				if err != nil {
					return "begin failed: " + err.Error()
				}
				res, err := txn.Insert(h, bsonkit.List{bsonkit.MustConvert(probe)}, true)
				verdict := "ok"
				if err != nil {
					verdict = "err"
				} else if res.Error != nil {
					verdict = "rejected"
				}
				e.engine.Abort(txn)
				out += fmt.Sprintf("%s/%s/%d=%s;", h.String(), name, i, verdict)
			}
		}
	}
	return out
}

func c06Restarted(e *Env, st *model.State, before, after *lungo.Catalog) {
	b, a := catalogDump(before, true), catalogDump(after, true)
	if a != b {
		e.violate(violation("C06", "reload-differs", c06Where(before, after), fmt.Sprintf("the reopened database differs from the one that was closed:\n--- closed\n%s--- reopened\n%s", clip(b), clip(a))))
		return
	}
	e.probe("reload-identical")
	if pr := c06Probe(e); pr != "" {
		e.probe("enforcement-probed")
		// same probes against a catalog equal to the closed one: build an engine over a memory store holding it
		ms := lungo.NewMemoryStore()
		if err := ms.Store(before); err == nil {
			eng, err := lungo.CreateEngine(lungo.Options{Store: ms, ExpireInterval: 1000000000000})
			if err == nil {
				saved := e.engine
				e.engine = eng
				want := c06Probe(e)
				e.engine = saved
				eng.Close()
				if want != pr {
					e.violate(violation("C06", "constraints-differ-after-reload", "", fmt.Sprintf("unique indexes enforce differently after reload: before %s after %s", want, pr)))
				}
			}
		}
	}
}

// c06Where names the first kind of difference (documents, index definitions, change log).
func c06Where(before, after *lungo.Catalog) string {
	bh, ah := handles(before), handles(after)
	if fmt.Sprint(bh) != fmt.Sprint(ah) {
		return "namespaces"
	}
	for _, h := range bh {
		bc, ac := before.Namespaces[h], after.Namespaces[h]
		if listDump(bc.Documents.List) != listDump(ac.Documents.List) {
			if h == lungo.Oplog {
				return "change-log"
			}
			return "documents"
		}
		if fmt.Sprint(indexNames(bc)) != fmt.Sprint(indexNames(ac)) {
			return "index-set"
		}
		for _, n := range indexNames(bc) {
			x, y := modelIndex(n, bc.Indexes[n].Config()), modelIndex(n, ac.Indexes[n].Config())
			if !model.Same(x.Key, y.Key) || x.Unique != y.Unique || x.TTL != y.TTL || !samePartial(x.Partial, y.Partial) {
				return "index-definition"
			}
		}
	}
	return "index-contents"
}
