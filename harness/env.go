package harness

import (
	"context"
	"errors"
	"fmt"
	"os"
	"regexp"
	"runtime/debug"
	"sort"
	"strings"
	"syscall"
	"testing"
	"testing/synctest"
	"time"

	"github.com/256dpi/lungo"
	"github.com/256dpi/lungo/bsonkit"
	"github.com/256dpi/lungo/verifsim/simos"
	"github.com/256dpi/lungo/verifsim/simrt"
	"go.mongodb.org/mongo-driver/bson/primitive"
)

const dataDir = "/data"
const dataFile = "/data/db.bson"

// CommitRec is one successful Store call: the ground-truth commit history.
type CommitRec struct {
	Seq   int
	Task  *simrt.Task
	At    time.Duration // simulated time since run start
	Wall  time.Time     // simulated wall clock (with offset)
	WallIn time.Time    // simulated wall clock when Store was entered
	AtIn   time.Duration // simulated (monotonic) time when Store was entered
	CallWall time.Time   // wall clock when the committing task's outermost call in flight was invoked (zero: unknown, or the clock was stepped since)
	Step  int
	Cat   *lungo.Catalog
	Prev  *lungo.Catalog // engine catalog at the time of the call
	Epoch int           // engine incarnation
}

// Env is the execution environment of one run.
type Env struct {
	plan *Plan
	sim  *simrt.Sim
	out  *Outcome

	disk    *simos.Disk
	store   *SimStore
	engine  *lungo.Engine
	client  lungo.IClient
	engines []*lungo.Engine
	epoch   int

	commits    []*CommitRec
	storeCalls int
	expireErrs []string

	storeFaults map[int]Fault
	diskFaults  map[int]Fault
	stepFaults  map[int][]Fault

	cancels  []context.CancelFunc
	blocked  map[*simrt.Task]*cancelReq
	held     map[*lungo.Transaction]*simrt.Task
	inCommit map[*simrt.Task]bool

	onCommit []func(c *CommitRec)
	onStep   []func() bool

	opSeq int // global invoke/return sequence

	baseCat *lungo.Catalog // catalog loaded when the current engine was opened
	attempt *lungo.Catalog // catalog handed to the store by the commit in progress
	diskFaultHit map[int]bool
	wallSteps    []wallStep // wall clock steps of the run
	callWall     map[*simrt.Task]time.Time     // per task: wall clock at the invocation of its outermost call in flight
	callAt       map[*simrt.Task]time.Duration // ... and the monotonic instant
	eventWall    map[primitive.Timestamp]time.Time // per change event: a wall clock reading taken no later than its creation (the harness's own, not the event's fields)
	diskFull     bool // every open and write fails with ENOSPC while set (the diskfull pseudo operation)
	maxTS   primitive.Timestamp
	tsEpoch int

	deferredOps []deferred
	expirePass  bool // the client is running Transaction.Expire itself

	maxWall      time.Time   // highest wall-clock reading at any call boundary (upper bound of the library's timestamp generator)
	storing      *simrt.Task // task inside SimStore.Store
	storingEpoch int

	allStreams []*streamState // every stream opened by any actor (operations with N >= 100 address this list)

	sharedSess []lungo.ISession
	closing    bool // Engine.Close has been invoked by the plan
	closed     bool // Engine.Close has returned
	closedAt   time.Duration
}

type simosCrash = simos.Crash

type cancelReq struct {
	cancel context.CancelFunc
	done   bool
}

func newEnv(plan *Plan) *Env {
	e := &Env{
		plan:        plan,
		out:         &Outcome{Faults: map[string]int{}, Probes: map[string]int{}},
		storeFaults: map[int]Fault{},
		diskFaults:  map[int]Fault{},
		stepFaults:  map[int][]Fault{},
		blocked:     map[*simrt.Task]*cancelReq{},
		held:        map[*lungo.Transaction]*simrt.Task{},
		inCommit:    map[*simrt.Task]bool{},
	}
	for _, f := range plan.Faults {
		switch {
		case strings.HasPrefix(f.Kind, "store-"):
			e.storeFaults[f.At] = f
		case strings.HasPrefix(f.Kind, "disk-"):
			e.diskFaults[f.At] = f
		default:
			e.stepFaults[f.At] = append(e.stepFaults[f.At], f)
		}
	}
	return e
}

func (e *Env) logf(format string, a ...any) {
	if len(e.out.Log) < 4000 {
		e.out.Log = append(e.out.Log, fmt.Sprintf(format, a...))
	}
}

// noteWall records the current wall-clock reading. The library's timestamp generator never runs backwards, so
// after a wall-clock step backwards its notion of "now" is the highest reading it has seen; readings are taken
// at every call boundary, store entry and right before every clock step, which bounds it from above.
func (e *Env) noteWall() {
	if e.sim == nil {
		return
	}
	if w := time.Now().Add(e.sim.WallOffset()); w.After(e.maxWall) {
		e.maxWall = w
	}
}

func (e *Env) probe(name string) { e.out.Probes[name]++ }
func (e *Env) fault(name string) { e.out.Faults[name]++ }

// violate records a violation: the first one of the property under test is
// the run's verdict, others are foreign notes.
func (e *Env) violate(v *Violation) {
	e.logf("VIOLATION %s: %s", v.Signature, v.Detail)
	if v.Prop == e.plan.Prop {
		if e.out.Violation == nil {
			e.out.Violation = v
		}
		return
	}
	for _, f := range e.out.Foreign {
		if f.Signature == v.Signature {
			return
		}
	}
	e.out.Foreign = append(e.out.Foreign, v)
}

func (e *Env) failed() bool { return e.out.Violation != nil }

// ---- store ----

// ErrInjected is the error returned by injected store faults.
var ErrInjected = errors.New("injected store failure")

// wallStep is one step of the wall clock: the monotonic instant and what the wall clock showed just before.
type wallStep struct {
	At     time.Duration
	Before time.Time
}

// wallCandidates returns the wall clock readings a task can have taken at the monotonic instant at which
// the commit entered the store: the one recorded there and, if the wall clock was stepped at that very
// instant by another task, the readings before those steps. (Between reading the clock and entering the
// store a commit does not wait for simulated time, but other tasks run.)
func (e *Env) wallCandidates(c *CommitRec) []time.Time {
	out := []time.Time{c.WallIn}
	for _, s := range e.wallSteps {
		if s.At == c.AtIn {
			out = append(out, s.Before)
		}
	}
	return out
}

// visibleCommits returns how many of the recorded commits are visible to clients: a commit is recorded when
// the store has taken it, which is before the engine publishes it. (On the unchanged tree nobody can look in
// between - the engine lock is held from before the store call until after publication - so this is the
// number of recorded commits; a variant that releases the lock while storing is judged by what it shows.)
func (e *Env) visibleCommits() int {
	cat := e.engine.Catalog()
	for j := len(e.commits); j > 0; j-- {
		if e.commits[j-1].Cat == cat {
			return j
		}
		if e.commits[j-1].Prev == cat {
			return j - 1
		}
	}
	return len(e.commits)
}

// SimStore wraps the store of the run: scheduling point, fault point and
// recorder of the commit history.
type SimStore struct {
	env   *Env
	inner lungo.Store
}

// Load loads the catalog.
func (s *SimStore) Load() (*lungo.Catalog, error) {
	simrt.Yield("store:load")
	return s.inner.Load()
}

// Store persists the catalog.
func (s *SimStore) Store(c *lungo.Catalog) error {
	e := s.env
	simrt.Yield("store:store")
	// commits are serialised by the writer slot and the engine lock: two tasks inside Store at once
	// are two writers (the later one would overwrite the earlier one's catalog)
	if cur := e.sim.Current(); e.storing != nil && e.storing != cur && e.storingEpoch == e.epoch {
		e.violate(violation("C16", "two-writers", "concurrent-commit", fmt.Sprintf("%s entered Store while %s is still inside it", taskName(cur), taskName(e.storing))))
	} else {
		e.storing, e.storingEpoch = cur, e.epoch
		defer func() { e.storing = nil }()
	}
	n := e.storeCalls
	e.storeCalls++
	wallIn := time.Now().Add(e.sim.WallOffset())
	atIn := e.sim.Elapsed()
	e.noteWall()
	f, has := e.storeFaults[n]
	if has && f.Kind == "store-latency" {
		e.fault("store-latency")
		time.Sleep(time.Duration(f.Ms) * time.Millisecond)
		simrt.Yield("store:wake")
	}
	if has && f.Kind == "store-slow-fail" {
		// the store works on the image for a while and then fails: nobody may see the attempt meanwhile
		e.fault("store-slow-fail")
		e.attempt = c
		time.Sleep(time.Duration(f.Ms) * time.Millisecond)
		simrt.Yield("store:wake")
		e.logf("store call %d: injected failure after %dms inside the store", n, f.Ms)
		return ErrInjected
	}
	if has && f.Kind == "store-before" {
		e.fault("store-before")
		e.logf("store call %d: injected failure before persisting", n)
		return ErrInjected
	}
	e.attempt = c
	err := s.inner.Store(c)
	if err != nil {
		e.logf("store call %d: inner store failed: %v", n, err)
		return err
	}
	if has && f.Kind == "store-after" {
		e.fault("store-after")
		e.logf("store call %d: injected failure after persisting", n)
		return ErrInjected
	}
	var callWall time.Time
	if cw, ok := e.callWall[e.sim.Current()]; ok {
		callWall = cw
		for _, ws := range e.wallSteps {
			if ws.At >= e.callAt[e.sim.Current()] {
				callWall = time.Time{}
			}
		}
	}
	rec := &CommitRec{CallWall: callWall, Seq: len(e.commits), Task: e.sim.Current(), At: e.sim.Elapsed(), Wall: time.Now().Add(e.sim.WallOffset()), WallIn: wallIn, AtIn: atIn, Step: e.sim.Steps(), Cat: c, Epoch: e.epoch}
	if len(e.commits) > 0 && e.commits[len(e.commits)-1].Epoch == e.epoch {
		rec.Prev = e.commits[len(e.commits)-1].Cat
	} else {
		rec.Prev = e.baseCat
	}
	e.commits = append(e.commits, rec)
	for _, fn := range e.onCommit {
		fn(rec)
	}
	return nil
}

// ---- engine life cycle ----

// quietStore reports whether nothing in the plan makes a commit spend simulated time inside the store
// (latency faults, slow disks, freely passing time): then no engine lock is ever held across a timer.
func (e *Env) quietStore() bool {
	if e.plan.Cfg.TimePassPct > 0 || e.plan.Cfg.DiskLatMs > 0 {
		return false
	}
	for _, f := range e.plan.Faults {
		if f.Kind == "store-latency" || f.Kind == "store-slow-fail" {
			return false
		}
	}
	return true
}

func taskName(t *simrt.Task) string {
	if t == nil {
		return "<scheduler>"
	}
	return t.Name
}

func errnoOf(name string) syscall.Errno {
	switch name {
	case "ENOSPC":
		return syscall.ENOSPC
	case "EACCES":
		return syscall.EACCES
	case "EPERM":
		return syscall.EPERM
	case "EEXIST":
		return syscall.EEXIST
	case "ENOENT":
		return syscall.ENOENT
	}
	return syscall.EIO
}

func (e *Env) setupDisk() {
	bs := e.plan.Cfg.BlockSize
	if bs == 0 {
		bs = 4096
	}
	e.disk = simos.NewDisk(bs, dataDir)
	e.disk.Decide = func(op simos.Op) simos.Decision {
		dec := simos.Decision{Short: -1}
		if e.plan.Cfg.DiskLatMs > 0 {
			dec.Latency = time.Duration(e.plan.Cfg.DiskLatMs) * time.Millisecond
		}
		f, ok := e.diskFaults[op.N]
		if !ok && e.diskFull && (op.Kind == "open" || op.Kind == "write") {
			dec.Action = simos.Fail
			dec.Errno = syscall.ENOSPC
			if op.Kind == "write" {
				dec.Short = 0
			}
			e.fault("disk-full:" + op.Kind)
			return dec
		}
		if !ok || op.Kind == "readfile" {
			// faults while loading are not part of any commit: a failed or killed load is just another restart
			return dec
		}
		if e.diskFaultHit == nil {
			e.diskFaultHit = map[int]bool{}
		}
		e.diskFaultHit[op.N] = true
		switch f.Kind {
		case "disk-err":
			dec.Action = simos.Fail
			dec.Errno = errnoOf(f.Errno)
			if op.Kind == "write" {
				dec.Short = f.N
			}
			e.fault("disk-err:" + op.Kind)
		case "disk-kill-before":
			dec.Action = simos.KillBefore
			e.fault("disk-kill-before:" + op.Kind)
		case "disk-kill-after":
			dec.Action = simos.KillAfter
			if op.Kind == "write" && f.N > 0 {
				dec.Short = f.N
			}
			e.fault("disk-kill-after:" + op.Kind)
		}
		e.logf("disk fault at point %d (%s %s): %s", op.N, op.Kind, op.Path, f.Kind)
		return dec
	}
	simos.Attach(e.disk)
}

func (e *Env) options() lungo.Options {
	c := e.plan.Cfg
	opts := lungo.Options{
		ExpireInterval: time.Duration(c.ExpireMs) * time.Millisecond,
		MinOplogSize:   c.MinOplog,
		MaxOplogSize:   c.MaxOplog,
		MinOplogAge:    time.Duration(c.MinAgeS) * time.Second,
		MaxOplogAge:    time.Duration(c.MaxAgeS) * time.Second,
		ExpireErrors: func(err error) {
			e.expireErrs = append(e.expireErrs, err.Error())
		},
	}
	return opts
}

// open creates the store and the engine. It must run inside a task.
func (e *Env) open() error {
	var inner lungo.Store
	if e.plan.Cfg.Store == "file" {
		if e.disk == nil {
			e.setupDisk()
		}
		inner = lungo.NewFileStore(dataFile, 0666)
	} else {
		if e.store != nil {
			// a "restart" on the memory store keeps the store object (it is the medium)
			inner = e.store.inner
		} else {
			inner = lungo.NewMemoryStore()
		}
	}
	e.store = &SimStore{env: e, inner: inner}
	opts := e.options()
	opts.Store = e.store
	client, engine, err := lungo.Open(nil, opts)
	if err != nil {
		return err
	}
	e.engine, e.client = engine, client
	e.engines = append(e.engines, engine)
	e.epoch++
	e.baseCat = engine.Catalog()
	return nil
}

// freshProcess resets process-global state of the library, as a new process would have it.
func (e *Env) freshProcess() { bsonkit.VerifResetTimestamp() }

// ---- contexts ----

// opCtx returns the context for an operation according to its Ctx mode.
func (e *Env) opCtx(t *simrt.Task, mode string, ms int64) (context.Context, func()) {
	switch mode {
	case "cancel":
		ctx, cancel := context.WithCancel(context.Background())
		e.cancels = append(e.cancels, cancel)
		e.blocked[t] = &cancelReq{cancel: cancel}
		return ctx, func() { delete(e.blocked, t); cancel() }
	case "deadline":
		if ms <= 0 {
			ms = 1000
		}
		ctx, cancel := context.WithTimeout(context.Background(), time.Duration(ms)*time.Millisecond)
		e.cancels = append(e.cancels, cancel)
		return ctx, cancel
	}
	return context.Background(), func() {}
}

// stepHook runs in the scheduler between steps: cancel-while-blocked and step faults.
func (e *Env) stepHook(s *simrt.Sim) bool {
	changed := false
	var victims []*simrt.Task
	for t := range e.blocked {
		victims = append(victims, t)
	}
	sort.Slice(victims, func(i, j int) bool { return victims[i].ID < victims[j].ID })
	for _, t := range victims {
		req := e.blocked[t]
		if !req.done && t.State() == simrt.Running && strings.HasPrefix(t.Site(), "select:") {
			req.done = true
			req.cancel()
			e.fault("ctx-cancel-while-blocked")
			e.logf("step %d: cancelled context of %s blocked at %s", s.Steps(), t.Name, t.Site())
			changed = true
		}
	}
	if fs, ok := e.stepFaults[s.Steps()]; ok {
		delete(e.stepFaults, s.Steps())
		for _, f := range fs {
			switch f.Kind {
			case "delay":
				for _, t := range s.Tasks() {
					if t.ID == f.Task && t.State() != simrt.Done {
						s.Delay(t, f.N)
						e.fault("delay")
					}
				}
			case "clock-jump":
				e.noteWall()
				e.wallSteps = append(e.wallSteps, wallStep{At: s.Elapsed(), Before: time.Now().Add(s.WallOffset())})
				s.SetWallOffset(s.WallOffset() + time.Duration(f.Ms)*time.Millisecond)
				e.fault("clock-jump")
				e.logf("step %d: wall clock stepped by %dms", s.Steps(), f.Ms)
			case "clock-back":
				e.noteWall()
				e.wallSteps = append(e.wallSteps, wallStep{At: s.Elapsed(), Before: time.Now().Add(s.WallOffset())})
				s.SetWallOffset(s.WallOffset() - time.Duration(f.Ms)*time.Millisecond)
				e.fault("clock-back")
				e.logf("step %d: wall clock stepped back by %dms", s.Steps(), f.Ms)
			}
		}
	}
	for _, fn := range e.onStep {
		if fn() {
			changed = true
		}
	}
	return changed
}

// ---- running ----

// runPlan executes body inside a fresh synctest bubble with a fresh simulation.
// body runs on the bubble's root goroutine: it spawns tasks, calls env.sim.Run
// and evaluates end-of-run checks. Teardown is done here.
func runPlan(t *testing.T, plan *Plan, body func(e *Env)) (out *Outcome) {
	e := newEnv(plan)
	out = e.out
	defer func() {
		if r := recover(); r != nil {
			msg := fmt.Sprint(r)
			if strings.Contains(msg, "deadlock: all goroutines in bubble are blocked") || strings.Contains(msg, "blocked goroutines remain") {
				// goroutines were left behind after teardown
				if out.Harness == "" {
					out.Harness = "teardown: " + msg
				}
				return
			}
			out.Harness = fmt.Sprintf("panic in harness: %v\n%s", r, debug.Stack())
		}
		simos.Attach(nil)
		if s := simrt.Active(); s != nil {
			s.Finish()
		}
	}()
	synctest.Test(t, func(t *testing.T) {
		bsonkit.VerifResetTimestamp()
		cfg := simrt.Config{
			Seed:        plan.Seed,
			Strategy:    plan.Cfg.Strategy,
			PCTDepth:    plan.Cfg.PCTDepth,
			MaxSteps:    plan.Cfg.MaxSteps,
			TimePassPct: plan.Cfg.TimePassPct,
			Schedule:    plan.Schedule,
			StallAfter:  time.Duration(plan.Cfg.StallS) * time.Second,
			MaxSimTime:  1000 * 24 * time.Hour,
			Fine:        plan.Cfg.Fine,
		}
		if cfg.MaxSteps == 0 {
			cfg.MaxSteps = 400000
		}
		e.sim = simrt.New(cfg)
		e.sim.OnStep = e.stepHook
		defer func() {
			r := recover()
			ok := e.sim.Drain(func() {
				for _, c := range e.cancels {
					c()
				}
				for _, en := range e.engines {
					en.Close()
				}
			})
			simos.Attach(nil)
			e.sim.Finish()
			if !ok && out.Harness == "" {
				out.Harness = "teardown: tasks left behind"
			}
			if r != nil {
				panic(r)
			}
		}()
		body(e)
		out.Steps = e.sim.Steps()
		out.ChoicePoints = e.sim.ChoicePoints()
		out.SimNanos = int64(e.sim.Elapsed())
		out.Commits = len(e.commits)
		out.Schedule = append([]int(nil), e.sim.Choices...)
		out.Unseeded = e.sim.NativeRanges
		if e.sim.FineYields > 0 {
			out.Probes["fine-grained-run"]++
			out.Probes["fine-yields"] += e.sim.FineYields
		}
		out.TraceHash = traceHash(e.sim.Trace)
		if traceDump {
			for _, s := range e.sim.Trace {
				out.Trace = append(out.Trace, fmt.Sprintf("%d@%s", s.Task, s.Site))
			}
		}
		out.LogHash = logHash(out.Log)
	})
	return out
}

var traceDump = os.Getenv("VERIF_DUMP") == "trace"

var oidRe = regexp.MustCompile(`\{"\$oid":"[0-9a-f]{24}"\}|0x[0-9a-f]{8,12}`)

// logHash hashes the call/result log with generated ObjectIDs (and pointers)
// replaced by placeholders in order of first appearance.
func logHash(log []string) uint64 {
	seen := map[string]int{}
	var sb strings.Builder
	for _, l := range log {
		sb.WriteString(oidRe.ReplaceAllStringFunc(l, func(m string) string {
			if _, ok := seen[m]; !ok {
				seen[m] = len(seen)
			}
			return fmt.Sprintf("oid#%d", seen[m])
		}))
		sb.WriteByte('\n')
	}
	return hash64(sb.String())
}

func traceHash(tr []simrt.Step) uint64 {
	var sb strings.Builder
	for _, s := range tr {
		site := s.Site
		if strings.HasPrefix(site, "wake") {
			// which ready case of a select fired is the one choice the runtime makes (DESIGN 3.6)
			// (clause index and clause line are dropped, the file stays)
			if i := strings.Index(site, ":"); i > 0 {
				site = "wake" + site[i:]
				if j := strings.LastIndex(site, ":"); j > 4 {
					site = site[:j]
				}
			}
		}
		fmt.Fprintf(&sb, "%d@%s;", s.Task, site)
	}
	return hash64(sb.String())
}

// stallReport describes where every task is (for deadlock / stall violations).
func (e *Env) stallReport() string {
	var parts []string
	for _, t := range e.sim.Tasks() {
		st := "parked"
		switch t.State() {
		case simrt.Done:
			continue
		case simrt.Running:
			st = "blocked-external"
		}
		parts = append(parts, fmt.Sprintf("%s:%s@%s", t.Name, st, t.Site()))
	}
	sort.Strings(parts)
	return strings.Join(parts, " ")
}
