package harness

import (
	"context"
	"errors"
	"fmt"
	"strings"
	"time"

	"github.com/256dpi/lungo"
	"github.com/256dpi/lungo/bsonkit"
	"github.com/256dpi/lungo/mongokit"
	"github.com/256dpi/lungo/verifsim/simrt"
	"go.mongodb.org/mongo-driver/bson"
	"go.mongodb.org/mongo-driver/bson/primitive"
	"go.mongodb.org/mongo-driver/mongo"
	"go.mongodb.org/mongo-driver/mongo/options"

	"verif/harness/model"
)

// CallRec is the record of one executed call.
type CallRec struct {
	Task   int
	Op     *Op
	Inv    int // global sequence number at invoke
	Ret    int // global sequence number at return
	InvCom int // commits completed at invoke
	RetCom int // commits completed at return
	InvAt  time.Duration
	RetAt  time.Duration
	Res    model.Res
	Err    error
	Panic  any
	InTxn  bool
	Subs   []*CallRec // calls made inside a transaction body
	TxnOK  bool       // transaction committed
	Commits []int     // commits (indices into the commit history) made while this top-level call ran
}

// actor executes the script of one task.
type actor struct {
	e     *Env
	t     *simrt.Task
	depth int // nesting of calls (the body of a session transaction runs inside the transaction's call)
	idx   int
	calls []*CallRec

	sctx    lungo.ISessionContext // set while inside a session transaction
	priv    lungo.ISession        // session the actor keeps across operations (Op.Sess == privSess)
	lazy    []lazyCursor          // cursors opened inside the current transaction body, read at its end
	pendingCommits []int
	streams []*streamState
	stale   []*lungo.Transaction

	// hooks
	afterCall func(a *actor, c *CallRec)
	special   func(a *actor, op *Op) bool // property specific pseudo operations
}

type streamState struct {
	s        lungo.IChangeStream
	scope    [2]string
	openInv  int // commits visible when Watch was invoked
	openRet  int // commits completed when Watch returned
	startTok bson.Raw
	startEv  bson.D // the delivered event whose token startTok is (or whose cluster time the stream starts at)
	startAt  bool   // opened with StartAtOperationTime = cluster time of startEv (inclusive)
	events   []bson.D
	tokens   []bson.Raw
	ended    string // "", closed, invalidated, lost, error:<..>
	watchErr error
	op       *Op

	matchedStart int
	checked      bool
	users        int // tasks currently inside a Next/TryNext + Decode on this stream
	scanned      int // global index of an event the stream is known to have examined (0: none); its position is at or after it
}

// classifyErr names an error for whitelists and logs.
func classifyErr(err error) string {
	switch {
	case err == nil:
		return "ok"
	case lungo.IsUniquenessError(err):
		return "dup"
	case errors.Is(err, context.Canceled):
		return "ctx-cancelled"
	case errors.Is(err, context.DeadlineExceeded):
		return "ctx-deadline"
	case errors.Is(err, ErrInjected):
		return "store-fault"
	case errors.Is(err, lungo.ErrEngineClosed):
		return "closed"
	case errors.Is(err, lungo.ErrSessionEnded):
		return "session-ended"
	case errors.Is(err, lungo.ErrLostOplogPosition):
		return "lost-position"
	}
	msg := err.Error()
	for _, m := range []string{"existing transaction", "missing transaction", "detected nested transaction", "no active transaction", "transaction mismatch", "token acquisition timeout", "unable to resume change stream", "immutable", "injected store failure", "engine closed"} {
		if strings.Contains(msg, m) {
			if m == "injected store failure" {
				return "store-fault"
			}
			if m == "engine closed" {
				return "closed"
			}
			return m
		}
	}
	return "other:" + msg
}

func (a *actor) ctxFor(op *Op) (context.Context, func()) {
	ctx, done := a.e.opCtx(a.t, op.Ctx, op.Ms)
	if a.sctx != nil {
		// inside a session transaction the calls must carry the session
		return a.sctx, done
	}
	return ctx, done
}

// call wraps the execution of one API call with invoke/return stamps.
func (a *actor) call(op *Op, fn func(c *CallRec)) *CallRec {
	e := a.e
	c := &CallRec{Task: a.idx, Op: op, InTxn: a.sctx != nil}
	e.opSeq++
	c.Inv, c.InvCom, c.InvAt = e.opSeq, len(e.commits), e.sim.Elapsed()
	e.noteWall()
	if a.depth == 0 {
		if e.callWall == nil {
			e.callWall, e.callAt = map[*simrt.Task]time.Time{}, map[*simrt.Task]time.Duration{}
		}
		e.callWall[a.t], e.callAt[a.t] = time.Now().Add(e.sim.WallOffset()), c.InvAt
	}
	a.depth++
	defer func() { a.depth-- }()
	func() {
		defer func() {
			if r := recover(); r != nil {
				if _, ok := r.(simrt.Killed); ok {
					panic(r)
				}
				if _, ok := r.(simosCrash); ok {
					panic(r)
				}
				c.Panic = r
			}
		}()
		fn(c)
	}()
	e.opSeq++
	c.Ret, c.RetCom, c.RetAt = e.opSeq, len(e.commits), e.sim.Elapsed()
	e.noteWall()
	if !c.InTxn {
		c.Commits, a.pendingCommits = a.pendingCommits, nil
	}
	a.calls = append(a.calls, c)
	a.t.Progress++
	e.logf("[%s] %s -> %s", a.t.Name, opStr(op), callStr(c))
	if a.afterCall != nil {
		a.afterCall(a, c)
	}
	return c
}

func opStr(op *Op) string {
	s := op.K
	if op.C != "" {
		s += " " + op.DB + "." + op.C
	}
	if op.F != nil {
		s += " f=" + docStr(op.F.D)
	}
	if op.U != nil {
		s += " u=" + docStr(op.U.D)
	}
	for _, f := range op.AF {
		s += " af=" + docStr(f.D)
	}
	if op.D != nil {
		s += " d=" + docStr(op.D.D)
	}
	if len(op.Docs) > 0 {
		s += fmt.Sprintf(" docs=%d", len(op.Docs))
	}
	if op.End != "" {
		s += " end=" + op.End
	}
	if op.Ctx != "" {
		s += " ctx=" + op.Ctx
	}
	if op.Ms > 0 {
		s += fmt.Sprintf(" ms=%d", op.Ms)
	}
	if op.Tag != "" {
		s += " tag=" + op.Tag
	}
	return s
}

func callStr(c *CallRec) string {
	if c.Panic != nil {
		return fmt.Sprintf("PANIC %v", c.Panic)
	}
	s := classifyErr(c.Err)
	r := c.Res
	if r.Matched+r.Modified+r.Upserted+r.Deleted+r.Inserted+r.Count > 0 {
		s += fmt.Sprintf(" m=%d mod=%d ups=%d del=%d ins=%d n=%d", r.Matched, r.Modified, r.Upserted, r.Deleted, r.Inserted, r.Count)
	}
	if len(r.Docs) > 0 {
		s += fmt.Sprintf(" docs=%d", len(r.Docs))
		if len(r.Docs) <= 2 {
			for _, d := range r.Docs {
				s += " " + docStr(d)
			}
		}
	}
	return s
}

// exec runs one scripted operation.
func (a *actor) exec(op *Op) *CallRec {
	e := a.e
	if a.special != nil && a.special(a, op) {
		return nil
	}
	switch op.K {
	case "sleep":
		time.Sleep(time.Duration(op.Ms) * time.Millisecond)
		simrt.Yield("op:wake")
		return nil
	case "yield":
		simrt.Yield("op:yield")
		return nil
	case "clock":
		// wall clock step (NTP correction, VM resume); timers keep following the monotonic clock
		e.noteWall()
		e.wallSteps = append(e.wallSteps, wallStep{At: e.sim.Elapsed(), Before: time.Now().Add(e.sim.WallOffset())})
		e.sim.SetWallOffset(e.sim.WallOffset() + time.Duration(op.Ms)*time.Millisecond)
		if op.Ms >= 0 {
			e.fault("clock-jump")
		} else {
			e.fault("clock-back")
		}
		e.logf("[%s] wall clock stepped by %dms", a.t.Name, op.Ms)
		return nil
	case "close":
		return a.call(op, func(c *CallRec) {
			e.closing = true
			t0 := e.sim.Elapsed()
			e.engine.Close()
			if d := e.sim.Elapsed() - t0; d >= time.Second && e.quietStore() {
				// nothing in this run keeps the engine lock for simulated time: shutdown may not wait for a timer
				e.violate(violation("C16", "close-slow", "", fmt.Sprintf("Engine.Close needed %v of simulated time although no commit was in flight (it waited for a timer)", d)))
			}
			if !e.closed {
				e.closed, e.closedAt = true, e.sim.Elapsed()
			}
			// shutdown is a barrier: no commit of this engine may still be inside the store when Close returns
			if e.storing != nil && e.storing != a.t && e.storingEpoch == e.epoch {
				e.violate(violation("C16", "close-during-commit", "", fmt.Sprintf("Engine.Close returned while %s is still inside Store with a commit", e.storing.Name)))
			}
			// after Close returned no background goroutine of the engine may be left
			// (checked after the next quiescence point, so that an exiting goroutine is gone)
			simrt.Yield("op:closed")
			for _, t := range e.sim.ReapAuto() {
				if true {
					e.violate(violation("C16", "close-left-goroutine", "", fmt.Sprintf("Engine.Close returned while background task %s is still at %s", t.Name, t.Site())))
				}
			}
		})
	case "e.expire":
		return a.call(op, func(c *CallRec) { c.Err = expireNow(e) })
	case "e.write":
		return a.engineWrite(op)
	case "e.read":
		return a.call(op, func(c *CallRec) {
			txn, err := e.engine.Begin(context.Background(), false)
			c.Err = err
			if err != nil {
				return
			}
			res, err := txn.Find(lungo.Handle{op.DB, op.C}, bsonkit.MustConvert(bson.M{}), nil, 0, 0)
			c.Err = err
			if err == nil {
				c.Res.Count = int64(len(res.Matched))
			}
		})
	case "e.stale":
		return a.call(op, func(c *CallRec) {
			if len(a.stale) == 0 {
				return
			}
			txn := a.stale[len(a.stale)-1]
			if op.End == "abort" {
				e.engine.Abort(txn)
				return
			}
			c.Err = e.engine.Commit(txn)
		})
	case "e.txn":
		return a.engineTxn(op)
	case "findLater":
		return a.call(op, func(c *CallRec) {
			ctx, done := a.ctxFor(op)
			defer done()
			csr, err := e.client.Database(op.DB).Collection(op.C).Find(ctx, nonNil(op.F.doc()))
			if err != nil {
				c.Err = err
				return
			}
			if a.sctx == nil {
				c.Res.Docs, c.Err = cursorDocs(ctx, csr)
				return
			}
			a.lazy = append(a.lazy, lazyCursor{csr, c})
		})
	case "s.txn":
		return a.sessionTxn(op)
	case "s.with":
		return a.withTxn(op)
	case "s.start", "s.commit", "s.abort", "s.end":
		return a.sharedSession(op)
	case "rmw":
		// read-modify-write of a counter: only atomic inside a transaction
		return a.call(op, func(c *CallRec) {
			ctx, done := a.ctxFor(op)
			defer done()
			key := op.D.doc()
			r1, err := drive(ctx, e.client, &Op{K: "findOne", DB: op.DB, C: op.C, F: jd(key)})
			if err != nil {
				c.Err = err
				return
			}
			c.Res.Docs, c.Res.NoDoc = r1.Docs, r1.NoDoc
			n := int32(0)
			if len(r1.Docs) > 0 {
				if v, ok := model.Get(r1.Docs[0], "n").(int32); ok {
					n = v
				}
			}
			r2, err := drive(ctx, e.client, &Op{K: "updateOne", DB: op.DB, C: op.C, F: jd(key), U: jd(bson.D{{Key: "$set", Value: bson.D{{Key: "n", Value: n + 1}, {Key: "by", Value: op.Tag}}}}), Upsert: true})
			c.Err = err
			c.Res.Matched, c.Res.Modified, c.Res.Upserted, c.Res.IDs = r2.Matched, r2.Modified, r2.Upserted, r2.IDs
		})
	case "s.expire":
		// an expiry pass on the shared session's transaction (Transaction.Expire is one more writer on it)
		return a.call(op, func(c *CallRec) {
			if len(e.sharedSess) == 0 {
				return
			}
			if s, ok := e.sharedSess[0].(*lungo.Session); ok {
				if t := s.Transaction(); t != nil {
					c.Err = t.Expire()
				}
			}
		})
	case "s.op":
		// a driver call carrying the shared session (joins its transaction if one is open)
		return a.call(op, func(c *CallRec) {
			if len(op.Sub) == 0 || len(e.sharedSess) == 0 {
				return
			}
			sess := e.sharedSess[op.Sess%len(e.sharedSess)]
			sub := &op.Sub[0]
			c.Err = lungo.WithSession(context.Background(), sess, func(sc lungo.ISessionContext) error {
				var err error
				c.Res, err = drive(sc, e.client, sub)
				return err
			})
		})
	case "watch":
		return a.watch(op)
	case "next", "trynext":
		return a.next(op)
	case "closeStream":
		return a.call(op, func(c *CallRec) {
			if st := a.stream(op.N); st != nil && st.s != nil {
				c.Err = st.s.Close(context.Background())
				if st.ended == "" {
					st.ended = "closed"
				}
			}
		})
	}
	// driver level
	return a.call(op, func(c *CallRec) {
		ctx, done := a.ctxFor(op)
		defer done()
		c.Res, c.Err = drive(ctx, e.client, op)
	})
}

func (a *actor) stream(i int) *streamState {
	if i >= 100 && i != 199 {
		// a stream of any actor: several goroutines may then wait on one stream
		if n := len(a.e.allStreams); n > 0 {
			return a.e.allStreams[(i-100)%n]
		}
		return nil
	}
	if len(a.streams) == 0 {
		return nil
	}
	if i == 99 {
		// the most recent stream of this actor
		return a.streams[len(a.streams)-1]
	}
	return a.streams[i%len(a.streams)]
}

func tagDoc(op *Op) bson.D {
	if op.D != nil {
		return op.D.D
	}
	return bson.D{{Key: "_id", Value: op.Tag}}
}

// engineWrite is a write through Engine.Begin/Commit/Abort directly.
func (a *actor) engineWrite(op *Op) *CallRec {
	e := a.e
	return a.call(op, func(c *CallRec) {
		ctx, done := e.opCtx(a.t, op.Ctx, op.Ms)
		defer done()
		txn, err := e.engine.Begin(ctx, true)
		if err != nil {
			c.Err = err
			return
		}
		// at most one write transaction may exist
		if len(e.held) > 0 {
			for _, other := range e.held {
				e.violate(violation("C16", "two-writers", "", fmt.Sprintf("%s obtained a write transaction while %s still holds one", a.t.Name, other.Name)))
			}
		}
		e.held[txn] = a.t
		release := func() { delete(e.held, txn) }
		if op.N > 0 {
			// hold the writer slot for a while
			time.Sleep(time.Duration(op.N) * time.Millisecond)
			simrt.Yield("op:wake")
		}
		_, err = txn.Insert(lungo.Handle{op.DB, op.C}, bsonkit.List{bsonkit.MustConvert(tagDoc(op))}, true)
		if err != nil {
			release()
			e.engine.Abort(txn)
			c.Err = err
			return
		}
		a.stale = append(a.stale, txn)
		switch op.End {
		case "abort":
			release()
			e.engine.Abort(txn)
		case "commit2":
			release()
			c.Err = e.engine.Commit(txn)
			err2 := e.engine.Commit(txn)
			if err2 == nil {
				e.violate(violation("C16", "double-commit-accepted", "", "second Commit of the same transaction returned nil"))
			}
		case "commit-abort":
			release()
			c.Err = e.engine.Commit(txn)
			e.engine.Abort(txn)
		default:
			release()
			c.Err = e.engine.Commit(txn)
			if c.Err == nil {
				c.Res.Inserted = 1
			}
		}
	})
}

// lazyCursor is a cursor opened by a "findLater" call inside a transaction body: it is read only after the rest
// of the body has run, and must still show the documents of the moment it was opened.
type lazyCursor struct {
	csr lungo.ICursor
	rec *CallRec
}

func (a *actor) drainLazy(ctx context.Context) {
	for _, l := range a.lazy {
		docs, err := cursorDocs(ctx, l.csr)
		if err != nil {
			l.rec.Err = err
			continue
		}
		l.rec.Res.Docs = docs
		a.e.logf("[%s]   cursor of %s read at the end of the body -> %d docs", a.t.Name, opStr(l.rec.Op), len(docs))
	}
	a.lazy = nil
}

// privSess marks operations that run on the session the actor keeps across operations.
const privSess = 7

// session returns the session for a transaction operation and what to do with it afterwards.
func (a *actor) session(op *Op) (lungo.ISession, func(), error) {
	if op.Sess == privSess {
		if a.priv == nil {
			s, err := a.e.client.StartSession()
			if err != nil {
				return nil, nil, err
			}
			a.priv = s
		}
		sess := a.priv
		if op.End == "end" {
			a.priv = nil // ended by the operation itself
		}
		return sess, func() {}, nil
	}
	sess, err := a.e.client.StartSession()
	if err != nil {
		return nil, nil, err
	}
	return sess, func() { sess.EndSession(context.Background()) }, nil
}

// engineTxn runs a scripted transaction through the engine-level API: Begin(true), Transaction.* calls (some of
// which fail), Commit or Abort. A Transaction.* call that reports an error must leave the transaction's working
// catalog byte-identical (documents, index definitions, index contents, change log): callers at this level are
// free to go on and commit after a failed step.
func (a *actor) engineTxn(op *Op) *CallRec {
	e := a.e
	return a.call(op, func(c *CallRec) {
		txn, err := e.engine.Begin(context.Background(), true)
		if err != nil {
			c.Err = err
			return
		}
		done := false
		defer func() {
			if !done {
				e.engine.Abort(txn)
			}
		}()
		for i := range op.Items {
			st := &op.Items[i]
			h := lungo.Handle{st.DB, st.C}
			before := catalogDump(txn.Catalog(), true)
			var serr error
			single := true
			switch st.K {
			case "t.insert":
				var list bsonkit.List
				if st.D != nil {
					list = append(list, bsonkit.MustConvert(st.D.doc()))
				}
				for _, d := range st.Docs {
					list = append(list, bsonkit.MustConvert(d.doc()))
				}
				single = len(list) == 1
				res, err := txn.Insert(h, list, st.Ordered)
				serr = err
				if err == nil && res.Error != nil {
					serr = res.Error
				}
			case "t.update":
				limit := 0
				if !st.After {
					limit = 1
				}
				single = limit == 1
				res, err := txn.Update(h, bsonkit.MustConvert(nonNil(st.F.doc())), nil, bsonkit.MustConvert(st.U.doc()), 0, limit, st.Upsert, nil)
				serr = err
				if err == nil && res.Error != nil {
					serr = res.Error
				}
				single = true // an update call is all-or-nothing whatever its limit
			case "t.delete":
				_, serr = txn.Delete(h, bsonkit.MustConvert(nonNil(st.F.doc())), nil, 0, st.Limit)
			case "t.createIndex":
				cfg := mongokit.IndexConfig{Key: bsonkit.MustConvert(st.D.doc()), Unique: st.Unique}
				if st.P != nil {
					cfg.Partial = bsonkit.MustConvert(st.P.doc())
				}
				_, serr = txn.CreateIndex(h, st.Name, cfg)
			case "t.dropIndex":
				serr = txn.DropIndex(h, st.Name)
			case "t.drop":
				serr = txn.Drop(h)
			}
			e.logf("[%s]   step %s -> %s", a.t.Name, opStr(st), classifyErr(serr))
			if serr != nil {
				e.probe("engine-txn-step-failed:" + st.K)
				if after := catalogDump(txn.Catalog(), true); single && after != before {
					e.violate(violation("C02", "failed-write-left-trace", "engine-transaction:"+st.K, fmt.Sprintf("inside an engine-level transaction %s failed with %v but changed the transaction's catalog:\n--- before\n%s--- after\n%s", opStr(st), serr, clip(before), clip(after))))
					if e.plan.Prop == "C02" {
						return
					}
					// (another property is under test: go on and commit, its own monitors look at the result)
				}
			}
		}
		done = true
		if op.End == "abort" {
			e.engine.Abort(txn)
			return
		}
		c.Err = e.engine.Commit(txn)
		c.TxnOK = c.Err == nil
	})
}

// sessionTxn: StartSession, StartTransaction, body, Commit | Abort | End.
func (a *actor) sessionTxn(op *Op) *CallRec {
	e := a.e
	return a.call(op, func(c *CallRec) {
		sess, finish, err := a.session(op)
		if err != nil {
			c.Err = err
			return
		}
		defer finish()
		ctx, done := e.opCtx(a.t, op.Ctx, op.Ms)
		defer done()
		err = lungo.WithSession(ctx, sess, func(sc lungo.ISessionContext) error {
			if err := sess.StartTransaction(); err != nil {
				return err
			}
			a.sctx = sc
			defer func() { a.sctx = nil }()
			for i := range op.Sub {
				if r := a.exec(&op.Sub[i]); r != nil {
					c.Subs = append(c.Subs, r)
				}
			}
			a.drainLazy(sc)
			switch op.End {
			case "abort":
				return sess.AbortTransaction(sc)
			case "end":
				sess.EndSession(sc)
				return nil
			default:
				err := sess.CommitTransaction(sc)
				if err == nil {
					c.TxnOK = true
				}
				return err
			}
		})
		c.Err = err
	})
}

type injectedPanic struct{ tag string }

var errCallback = errors.New("callback failed")

// withTxn: Session.WithTransaction with a callback that succeeds, fails or panics.
func (a *actor) withTxn(op *Op) *CallRec {
	e := a.e
	return a.call(op, func(c *CallRec) {
		sess, finish, err := a.session(op)
		if err != nil {
			c.Err = err
			return
		}
		defer finish()
		ctx, done := e.opCtx(a.t, op.Ctx, op.Ms)
		defer done()
		defer func() {
			if r := recover(); r != nil {
				if ip, ok := r.(injectedPanic); ok && ip.tag == op.Tag {
					e.fault("callback-panic")
					c.Err = errCallback
					return
				}
				panic(r)
			}
		}()
		_, err = sess.WithTransaction(ctx, func(sc lungo.ISessionContext) (interface{}, error) {
			a.sctx = sc
			defer func() { a.sctx = nil }()
			for i := range op.Sub {
				if r := a.exec(&op.Sub[i]); r != nil {
					c.Subs = append(c.Subs, r)
				}
			}
			a.drainLazy(sc)
			switch op.End {
			case "error":
				e.fault("callback-error")
				return nil, errCallback
			case "panic":
				panic(injectedPanic{op.Tag})
			}
			return nil, nil
		})
		c.Err = err
		if err == nil {
			c.TxnOK = true
		}
	})
}

// sharedSession operates on a session shared between tasks.
func (a *actor) sharedSession(op *Op) *CallRec {
	e := a.e
	return a.call(op, func(c *CallRec) {
		sess := e.sharedSess[op.Sess%len(e.sharedSess)]
		switch op.K {
		case "s.start":
			c.Err = sess.StartTransaction()
		case "s.commit":
			c.Err = sess.CommitTransaction(context.Background())
		case "s.abort":
			c.Err = sess.AbortTransaction(context.Background())
		case "s.end":
			sess.EndSession(context.Background())
		}
	})
}

func (a *actor) watch(op *Op) *CallRec {
	e := a.e
	return a.call(op, func(c *CallRec) {
		st := &streamState{op: op}
		o := options.ChangeStream()
		switch op.Start {
		case "resume", "after":
			// resume from the last token this actor has seen
			var tok bson.Raw
			for i := len(a.streams) - 1; i >= 0 && tok == nil; i-- {
				if n := len(a.streams[i].tokens); n > 0 {
					tok = a.streams[i].tokens[n-1]
					st.startEv = a.streams[i].events[n-1]
				}
			}
			if tok == nil {
				break
			}
			st.startTok = tok
			if op.Start == "resume" {
				o.SetResumeAfter(tok)
			} else {
				o.SetStartAfter(tok)
			}
		}
		if op.Start == "at" {
			// start at the cluster time of the last event this actor has seen: that event is delivered again
			for i := len(a.streams) - 1; i >= 0 && st.startEv == nil; i-- {
				for n := len(a.streams[i].events) - 1; n >= 0; n-- {
					if model.Get(a.streams[i].events[n], "operationType") == "invalidate" {
						continue // (synthetic, not part of the change log)
					}
					if ts, ok := model.Get(a.streams[i].events[n], "clusterTime").(primitive.Timestamp); ok {
						st.startEv, st.startAt = a.streams[i].events[n], true
						o.SetStartAtOperationTime(&ts)
						break
					}
				}
			}
		}
		st.openInv = e.visibleCommits()
		var s lungo.IChangeStream
		var err error
		switch op.Scope {
		case "client":
			s, err = e.client.Watch(context.Background(), bson.A{}, o)
		case "db":
			s, err = e.client.Database(op.DB).Watch(context.Background(), bson.A{}, o)
			st.scope = [2]string{op.DB, ""}
		default:
			s, err = e.client.Database(op.DB).Collection(op.C).Watch(context.Background(), bson.A{}, o)
			st.scope = [2]string{op.DB, op.C}
		}
		st.openRet = len(e.commits)
		c.Err = err
		if err != nil {
			st.watchErr = err
			st.ended = "error:" + classifyErr(err)
		} else {
			st.s = s
		}
		a.streams = append(a.streams, st)
		if st.s != nil {
			e.allStreams = append(e.allStreams, st)
		}
	})
}

func (a *actor) next(op *Op) *CallRec {
	e := a.e
	return a.call(op, func(c *CallRec) {
		st := a.stream(op.N)
		if st == nil || st.s == nil {
			return
		}
		ctx, done := e.opCtx(a.t, op.Ctx, op.Ms)
		defer done()
		st.users++
		shared := st.users > 1
		defer func() { st.users-- }()
		var ok bool
		if op.K == "next" {
			ok = st.s.Next(ctx)
		} else {
			ok = st.s.TryNext(ctx)
		}
		if ok {
			var ev bson.D
			if err := st.s.Decode(&ev); err != nil {
				if errors.Is(err, mongo.ErrNilCursor) {
					// closed by another task between Next and Decode
					if st.ended == "" {
						st.ended = "closed"
					}
					return
				}
				c.Err = err
				return
			}
			st.events = append(st.events, ev)
			st.tokens = append(st.tokens, st.s.ResumeToken())
			c.Res.Count = 1
			c.Res.Docs = []bson.D{ev}
			if model.Get(ev, "operationType") == "invalidate" {
				st.ended = "invalidated"
			}
			return
		}
		c.Err = st.s.Err()
		if c.Err == nil && st.ended == "" && !shared && st.users == 1 {
			// no new event: what Decode hands out now is at most the event delivered last, never one the stream
			// skipped as out of scope or has not delivered (not judged while another task is between its own
			// Next and Decode on the same stream: its event is delivered but not yet recorded)
			var ev bson.D
			if err := st.s.Decode(&ev); err == nil {
				if n := len(st.events); n == 0 || !model.Same(ev, st.events[n-1]) {
					e.violate(violation("C09", "decode-without-delivery", "", fmt.Sprintf("after %s returned false, Decode hands out %s, which the stream has not delivered", op.K, docStr(ev))))
				}
			}
		}
		if c.Err != nil && st.ended == "" {
			if errors.Is(c.Err, lungo.ErrLostOplogPosition) {
				st.ended = "lost"
			}
		}
	})
}

// run executes the whole script.
func (a *actor) run(ops []Op) {
	for i := range ops {
		simrt.Yield("op:next")
		a.exec(&ops[i])
		if a.e.failed() {
			return
		}
	}
}

var _ = primitive.ObjectID{}
