#!/bin/sh
# Sensitivity regression: run every seeded change under /verif/seeded through the quick check that is recorded as
# catching it (meta.json: after_strengthening.check, else breaks_property) and write seeded/RESULTS.tsv.
#   tools/seeded_all.sh [budget-seconds] [id-prefix[,id-prefix...]]      (SEEDED_OUT=<file>: write there instead)
# Each run points the check at a scratch worktree of /repo with the patch applied (tools/seeded.sh run); /repo,
# /verif/evidence and /verif/replays are not touched. A change that is not reported is listed as MISSED; the
# script exits 1 if any is.
cd "$(dirname "$0")/.." || exit 3
B=${1:-40}; PFX=${2:-}
OUT=${SEEDED_OUT:-seeded/RESULTS.tsv}
TMP=$(mktemp /var/tmp/verif-seeded-all-XXXXXX)
printf 'id\twave\tproperty\tcheck\tbudget_s\tresult\tsignature\n' > "$TMP"
miss=0
DIRS=$(for x in $(echo "${PFX:-C}" | tr ',' ' '); do ls -d seeded/${x}*/; done | sort -V)
for d in $DIRS; do
  id=$(basename "$d")
  [ -f "$d/meta.json" ] || continue
  set -- $(python3 - "$d/meta.json" <<'EOF'
import json,sys
m=json.load(open(sys.argv[1]))
chk=(m.get("after_strengthening") or {}).get("check") or m["breaks_property"]
print(m.get("wave",1), m["breaks_property"], chk, "notjudged" if m.get("not_reported") else ("obsolete" if m.get("obsolete") else "live"))
EOF
)
  wave=$1; prop=$2; chk=$3
  if [ "$4" = notjudged ]; then
    printf '%s\t%s\t%s\t%s\t%s\t%s\t%s\n' "$id" "$wave" "$prop" "$chk" "$B" "NOT-JUDGED" "outside what the check judges (see meta.json)" | tee -a "$TMP"
    continue
  fi
  if [ "$4" = obsolete ]; then
    printf '%s\t%s\t%s\t%s\t%s\t%s\t%s\n' "$id" "$wave" "$prop" "$chk" "$B" "OBSOLETE" "neutralised by a later fix commit (see meta.json)" | tee -a "$TMP"
    continue
  fi
  log=$(SEEDED_LINES=80 tools/seeded.sh run "$d" "$chk" "$B" 2>&1)
  if echo "$log" | grep -a -q '^VIOLATION'; then
    res=CAUGHT; sig=$(echo "$log" | grep -a -m1 '^violation' | cut -d' ' -f2 | tr -d ':')
  else
    res=MISSED; sig=$(echo "$log" | grep -a -m1 -E 'VERIF-FAULT|HARNESS' | cut -c1-80); miss=$((miss+1))
  fi
  printf '%s\t%s\t%s\t%s\t%s\t%s\t%s\n' "$id" "$wave" "$prop" "$chk" "$B" "$res" "$sig" | tee -a "$TMP"
done
mv "$TMP" "$OUT"
echo "seeded changes not reported: $miss"
[ "$miss" -eq 0 ]
