package harness

import (
	"encoding/hex"
	"fmt"
	"sort"
	"strings"
	"time"

	"github.com/256dpi/lungo"
	"github.com/256dpi/lungo/bsonkit"
	"github.com/256dpi/lungo/mongokit"
	"go.mongodb.org/mongo-driver/bson"

	"verif/harness/model"
)

func handles(cat *lungo.Catalog) []lungo.Handle {
	var hs []lungo.Handle
	for h := range cat.Namespaces {
		hs = append(hs, h)
	}
	sort.Slice(hs, func(i, j int) bool { return hs[i].String() < hs[j].String() })
	return hs
}

func docBytes(d bsonkit.Doc) []byte {
	b, err := bson.Marshal(d)
	if err != nil {
		return []byte("!marshal:" + err.Error())
	}
	return b
}

func toD(d bsonkit.Doc) bson.D {
	// round trip so that the harness never aliases engine documents
	var out bson.D
	if err := bson.Unmarshal(docBytes(d), &out); err != nil {
		panic(err)
	}
	return out
}

func indexNames(c *mongokit.Collection) []string {
	var names []string
	for n := range c.Indexes {
		names = append(names, n)
	}
	sort.Strings(names)
	return names
}

// modelIndex converts an engine index configuration to the model's form.
func modelIndex(name string, cfg mongokit.IndexConfig) model.Index {
	ix := model.Index{Name: name, Unique: cfg.Unique, TTL: cfg.Expiry}
	if cfg.Key != nil {
		ix.Key = toD(cfg.Key)
	}
	if cfg.Partial != nil {
		ix.Partial = toD(cfg.Partial)
	}
	return ix
}

// catalogDump renders a catalog canonically: documents as BSON bytes in
// natural order, index definitions, index contents as positions (runs of equal
// keys ordered by position, because their relative order is address dependent).
func catalogDump(cat *lungo.Catalog, withOplog bool) string {
	var sb strings.Builder
	for _, h := range handles(cat) {
		if h == lungo.Oplog && !withOplog {
			continue
		}
		c := cat.Namespaces[h]
		fmt.Fprintf(&sb, "ns %s docs=%d\n", h.String(), len(c.Documents.List))
		for _, d := range c.Documents.List {
			sb.WriteString(" d ")
			sb.WriteString(hex.EncodeToString(docBytes(d)))
			sb.WriteByte('\n')
		}
		for _, name := range indexNames(c) {
			ix := c.Indexes[name]
			cfg := ix.Config()
			fmt.Fprintf(&sb, " ix %s key=%s unique=%v expiry=%d", name, hex.EncodeToString(docBytes(cfg.Key)), cfg.Unique, cfg.Expiry)
			if cfg.Partial != nil {
				fmt.Fprintf(&sb, " partial=%s", hex.EncodeToString(docBytes(cfg.Partial)))
			}
			fmt.Fprintf(&sb, " list=%v\n", indexPositions(c, ix))
		}
	}
	return sb.String()
}

// indexPositions renders Index.List() as positions into the document list,
// with runs of equal index keys sorted by position.
func indexPositions(c *mongokit.Collection, ix *mongokit.Index) []int {
	list := ix.List()
	mi := modelIndex("", ix.Config())
	pos := make([]int, len(list))
	keys := make([][]any, len(list))
	for i, d := range list {
		p, ok := c.Documents.Index[d]
		if !ok {
			p = -1
		}
		pos[i] = p
		keys[i] = minTuple(toD(d), mi.Key)
	}
	// sort runs of equal keys by position
	i := 0
	for i < len(pos) {
		j := i + 1
		for j < len(pos) && tupleCmp(keys[i], keys[j], mi.Key) == 0 {
			j++
		}
		sort.Ints(pos[i:j])
		i = j
	}
	return pos
}

func dirOf(e bson.E) int {
	switch v := e.Value.(type) {
	case int32:
		return int(v)
	case int64:
		return int(v)
	case float64:
		return int(v)
	}
	return 1
}

func tupleCmp(a, b []any, key bson.D) int {
	for i := range key {
		c := model.Compare(a[i], b[i])
		if dirOf(key[i]) < 0 {
			c = -c
		}
		if c != 0 {
			return c
		}
	}
	return 0
}

// minTuple is the smallest key tuple of a document under the index order.
func minTuple(d bson.D, key bson.D) []any {
	ts := model.Tuples(d, key)
	best := ts[0]
	for _, t := range ts[1:] {
		if tupleCmp(t, best, key) < 0 {
			best = t
		}
	}
	return best
}

// compareState compares the engine catalog with the model state. It returns
// "" when every collection holds the same documents in the same order and the
// same index definitions.
func compareState(st *model.State, cat *lungo.Catalog) string {
	seen := map[model.NS]bool{}
	for _, h := range handles(cat) {
		if h == lungo.Oplog {
			continue
		}
		ns := model.NS{DB: h[0], Coll: h[1]}
		seen[ns] = true
		mc := st.Colls[ns]
		if mc == nil {
			return fmt.Sprintf("collection %s exists in the database but not in the model", ns)
		}
		c := cat.Namespaces[h]
		if len(c.Documents.List) != len(mc.Docs) {
			return fmt.Sprintf("collection %s: database has %d documents, model %d", ns, len(c.Documents.List), len(mc.Docs))
		}
		for i, d := range c.Documents.List {
			if string(docBytes(d)) != string(model.Bytes(mc.Docs[i])) {
				return fmt.Sprintf("collection %s document %d: database %s model %s", ns, i, docStr(toD(d)), docStr(mc.Docs[i]))
			}
		}
		names := indexNames(c)
		var mnames []string
		mix := map[string]model.Index{}
		for _, ix := range mc.Indexes {
			mnames = append(mnames, ix.Name)
			mix[ix.Name] = ix
		}
		sort.Strings(mnames)
		if strings.Join(names, ",") != strings.Join(mnames, ",") {
			return fmt.Sprintf("collection %s: database indexes %v, model %v", ns, names, mnames)
		}
		for _, n := range names {
			got := modelIndex(n, c.Indexes[n].Config())
			want := mix[n]
			if !model.Same(got.Key, want.Key) || got.Unique != want.Unique || got.TTL != want.TTL || !samePartial(got.Partial, want.Partial) {
				return fmt.Sprintf("collection %s index %s: database %+v model %+v", ns, n, got, want)
			}
		}
	}
	for ns := range st.Colls {
		if !seen[ns] {
			return fmt.Sprintf("collection %s exists in the model but not in the database", ns)
		}
	}
	return ""
}

func samePartial(a, b bson.D) bool {
	if a == nil || b == nil {
		return a == nil && b == nil
	}
	return model.Same(a, b)
}

// checkUnique is the C07 invariant on one catalog.
func checkUnique(cat *lungo.Catalog) *Violation {
	for _, h := range handles(cat) {
		if h == lungo.Oplog {
			continue
		}
		c := cat.Namespaces[h]
		var docs []bson.D
		for _, d := range c.Documents.List {
			docs = append(docs, toD(d))
		}
		var ixs []model.Index
		for _, n := range indexNames(c) {
			ixs = append(ixs, modelIndex(n, c.Indexes[n].Config()))
		}
		if name := model.UniqueViolation(docs, ixs); name != "" {
			return violation("C07", "duplicate-key", "", fmt.Sprintf("collection %s holds two documents with the same key under unique index %s", h.String(), name))
		}
	}
	return nil
}

// checkIndexes is the C15 invariant on one catalog: every index holds exactly
// the collection's documents (those matching its partial filter), each once, in
// key order, and equals an index rebuilt from scratch.
func checkIndexes(cat *lungo.Catalog) *Violation {
	for _, h := range handles(cat) {
		if h == lungo.Oplog {
			continue
		}
		c := cat.Namespaces[h]
		if _, ok := c.Indexes["_id_"]; !ok {
			return violation("C15", "id-index-missing", "", fmt.Sprintf("collection %s has no _id index", h.String()))
		}
		for _, name := range indexNames(c) {
			ix := c.Indexes[name]
			cfg := ix.Config()
			mi := modelIndex(name, cfg)
			expected := map[bsonkit.Doc]bool{}
			skip := false
			for _, d := range c.Documents.List {
				in := true
				if mi.Partial != nil {
					m, err := model.Match(toD(d), mi.Partial)
					if err != nil {
						skip = true
						break
					}
					in = m
				}
				if in {
					expected[d] = true
				}
			}
			if skip {
				continue
			}
			list := ix.List()
			seen := map[bsonkit.Doc]bool{}
			var prev []any
			for i, d := range list {
				if seen[d] {
					return violation("C15", "index-duplicate-entry", "", fmt.Sprintf("%s index %s lists a document twice", h.String(), name))
				}
				seen[d] = true
				if !expected[d] {
					what := "a document that is not in the collection"
					if _, ok := c.Documents.Index[d]; ok {
						what = "a document outside its partial filter"
					}
					return violation("C15", "index-stale-entry", "", fmt.Sprintf("%s index %s holds %s: %s", h.String(), name, what, docStr(toD(d))))
				}
				t := minTuple(toD(d), mi.Key)
				if i > 0 && tupleCmp(prev, t, mi.Key) > 0 {
					return violation("C15", "index-order", "", fmt.Sprintf("%s index %s is not in key order at position %d", h.String(), name, i))
				}
				prev = t
			}
			for d := range expected {
				if !seen[d] {
					return violation("C15", "index-missing-entry", "", fmt.Sprintf("%s index %s lacks document %s", h.String(), name, docStr(toD(d))))
				}
			}
			// observational equality with an index rebuilt from scratch
			fresh, err := mongokit.CreateIndex(cfg)
			if err != nil {
				return violation("C15", "index-rebuild", "", fmt.Sprintf("%s index %s cannot be recreated from its own configuration: %v", h.String(), name, err))
			}
			ok, err := fresh.Build(c.Documents.List)
			if err != nil || !ok {
				return violation("C15", "index-rebuild", "", fmt.Sprintf("%s index %s cannot be rebuilt over the collection's documents (ok=%v err=%v)", h.String(), name, ok, err))
			}
			tmp := &mongokit.Collection{Documents: c.Documents, Indexes: map[string]*mongokit.Index{}}
			if a, b := fmt.Sprint(indexPositions(tmp, fresh)), fmt.Sprint(indexPositions(c, ix)); a != b {
				return violation("C15", "index-differs-from-rebuilt", "", fmt.Sprintf("%s index %s lists %s, rebuilt from scratch %s", h.String(), name, b, a))
			}
		}
	}
	return nil
}

func dur(d time.Duration) string { return d.String() }
