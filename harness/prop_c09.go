package harness

import (
	"fmt"
	"testing"
	"time"

	"github.com/256dpi/lungo"
	"github.com/256dpi/lungo/verifsim/simrt"
	"go.mongodb.org/mongo-driver/bson"

	"verif/harness/model"
)

// C09 - change streams deliver each matching event once, in order, without stalls.

func init() {
	register(&Property{ID: "C09", Gen: genC09, Exec: execC09})
}

// genC09Positionless: a stream opened before anything was written has no
// position in the change log; it must neither skip events that retention
// removed before it saw them, nor report a lost position when nothing was
// removed - in particular not when the commit that would have trimmed failed.
func genC09Positionless(seed uint64, run int) *Plan {
	r := newRNG(seed, 99)
	p := &Plan{Prop: "C09", Seed: seed, Run: run}
	p.Cfg = Cfg{Store: "mem", Strategy: pick(r, "random", "pct", "sticky", "nonpreempt"), PCTDepth: 1 + r.IntN(3), ExpireMs: 60000}
	p.Cfg.MinOplog = 1 + r.IntN(2)
	p.Cfg.MaxOplog = p.Cfg.MinOplog + r.IntN(3)
	p.Cfg.MinAgeS, p.Cfg.MaxAgeS = 1, pick(r, int64(1), 3600)
	w := TaskPlan{Name: "writer0", Role: "writer"}
	w.Ops = append(w.Ops, Op{K: "sleep", Ms: 5})
	n := p.Cfg.MaxOplog + 1 + r.IntN(3)
	for i := 0; i < n; i++ {
		w.Ops = append(w.Ops, Op{K: "insertOne", DB: "db", C: "c0", D: jd(bson.D{{Key: "_id", Value: int32(i)}, {Key: "v", Value: fmt.Sprintf("e%d", i+1)}})})
		w.Ops = append(w.Ops, Op{K: "sleep", Ms: pick(r, int64(1100), 1100, 2100, 300)})
	}
	c := TaskPlan{Name: "consumer0", Role: "consumer"}
	c.Ops = append(c.Ops, Op{K: "watch", Scope: pick(r, "client", "db", "coll"), DB: "db", C: "c0"})
	c.Ops = append(c.Ops, Op{K: "sleep", Ms: int64(r.IntN(n * 1500))})
	for k := 1 + r.IntN(n+1); k > 0; k-- {
		c.Ops = append(c.Ops, Op{K: pick(r, "next", "next", "trynext"), N: 99, Ctx: "deadline", Ms: pick(r, int64(50), 1500, 4000)})
	}
	if r.IntN(2) == 0 {
		// come back later from the time (or token) of an event seen early: by then retention may have removed it
		c.Ops = append(c.Ops, Op{K: "sleep", Ms: int64(1000 + r.IntN(n*1500))})
		c.Ops = append(c.Ops, Op{K: "watch", Scope: pick(r, "client", "db", "coll"), DB: "db", C: "c0", Start: pick(r, "at", "at", "resume", "after")})
		for k := 1 + r.IntN(n+1); k > 0; k-- {
			c.Ops = append(c.Ops, Op{K: pick(r, "next", "trynext"), N: 99, Ctx: "deadline", Ms: pick(r, int64(50), 1500)})
		}
	}
	p.Tasks = []TaskPlan{w, c}
	if r.IntN(3) > 0 {
		// the commit that would trim for the first time (or one next to it) fails in the store
		p.Faults = append(p.Faults, Fault{Kind: "store-before", At: p.Cfg.MaxOplog + r.IntN(2)})
	}
	return p
}

func genC09(seed uint64, run int, tier string) *Plan {
	if newRNG(seed, 0x909).IntN(100) < 6 {
		return genC09Positionless(seed, run)
	}
	r := newRNG(seed, 9)
	p := &Plan{Prop: "C09", Seed: seed, Run: run}
	p.Cfg = Cfg{
		Store:    "mem",
		Strategy: pick(r, "random", "random", "pct", "pct", "sticky", "nonpreempt"),
		PCTDepth: 1 + r.IntN(3),
		ExpireMs: pick(r, int64(500), 5000, 60000),
	}
	p.Cfg.Fine = fineTier(tier, seed, 15, 3)
	trim := r.IntN(2) == 0
	if trim {
		p.Cfg.MinOplog = 1 + r.IntN(3)
		p.Cfg.MaxOplog = p.Cfg.MinOplog + r.IntN(4)
		p.Cfg.MinAgeS, p.Cfg.MaxAgeS = 1, pick(r, int64(1), 2, 3600)
	} else {
		p.Cfg.MinOplog, p.Cfg.MaxOplog = 500, 1000
	}
	dbs := []string{"db", "db2"}
	colls := []string{"c0", "c1"}
	tag := 0
	nextTag := func() string { tag++; return fmt.Sprintf("e%d", tag) }
	write := func() Op {
		db, c := pick(r, dbs...), pick(r, colls...)
		id := int32(r.IntN(3))
		switch r.IntN(12) {
		case 0, 1, 2, 3:
			return Op{K: "updateOne", DB: db, C: c, F: jd(bson.D{{Key: "_id", Value: id}}), U: jd(bson.D{{Key: "$set", Value: bson.D{{Key: "v", Value: nextTag()}}}}), Upsert: true}
		case 4, 5:
			return Op{K: "insertOne", DB: db, C: c, D: jd(bson.D{{Key: "_id", Value: id}, {Key: "v", Value: nextTag()}})}
		case 6:
			return Op{K: "deleteOne", DB: db, C: c, F: jd(bson.D{{Key: "_id", Value: id}})}
		case 7:
			return Op{K: "replaceOne", DB: db, C: c, F: jd(bson.D{{Key: "_id", Value: id}}), D: jd(bson.D{{Key: "v", Value: nextTag()}})}
		case 8:
			return Op{K: "dropColl", DB: db, C: c}
		case 9:
			if r.IntN(2) == 0 {
				return Op{K: "dropDB", DB: db}
			}
			return Op{K: "updateMany", DB: db, C: c, F: jd(bson.D{}), U: jd(bson.D{{Key: "$set", Value: bson.D{{Key: "w", Value: nextTag()}}}})}
		case 10:
			op := Op{K: "s.txn", End: pick(r, "commit", "commit", "abort"), Tag: nextTag()}
			for n := 1 + r.IntN(3); n > 0; n-- {
				op.Sub = append(op.Sub, Op{K: "updateOne", DB: db, C: pick(r, colls...), F: jd(bson.D{{Key: "_id", Value: int32(r.IntN(3))}}), U: jd(bson.D{{Key: "$set", Value: bson.D{{Key: "v", Value: nextTag()}}}}), Upsert: true})
			}
			return op
		default:
			return Op{K: "sleep", Ms: pick(r, int64(5), 300, 1100, 2500)}
		}
	}
	nw := 1 + r.IntN(2)
	for i := 0; i < nw; i++ {
		tp := TaskPlan{Name: fmt.Sprintf("writer%d", i), Role: "writer"}
		for n := deepen(tier, seed, 2+r.IntN(8)); n > 0; n-- {
			tp.Ops = append(tp.Ops, write())
		}
		p.Tasks = append(p.Tasks, tp)
	}
	nc := 1 + r.IntN(3)
	for i := 0; i < nc; i++ {
		tp := TaskPlan{Name: fmt.Sprintf("consumer%d", i), Role: "consumer"}
		watch := func(start string) Op {
			return Op{K: "watch", Scope: pick(r, "client", "db", "coll", "coll"), DB: pick(r, dbs...), C: pick(r, colls...), Start: start}
		}
		if r.IntN(3) == 0 {
			tp.Ops = append(tp.Ops, Op{K: "sleep", Ms: int64(1 + r.IntN(1500))})
		}
		tp.Ops = append(tp.Ops, watch(""))
		for n := deepen(tier, seed, 1+r.IntN(8)); n > 0; n-- {
			switch k := r.IntN(20); {
			case k < 9:
				tp.Ops = append(tp.Ops, Op{K: "next", N: 99, Ctx: "deadline", Ms: pick(r, int64(50), 700, 3000)})
			case k < 12:
				tp.Ops = append(tp.Ops, Op{K: "trynext", N: 99})
			case k < 13:
				tp.Ops = append(tp.Ops, Op{K: "next", N: 99, Ctx: "cancel"})
			case k < 14:
				tp.Ops = append(tp.Ops, Op{K: "closeStream", N: 99})
				tp.Ops = append(tp.Ops, watch(pick(r, "", "resume", "after", "at")))
			case k < 16:
				tp.Ops = append(tp.Ops, watch(pick(r, "resume", "after", "at", "")))
			case k < 17:
				tp.Ops = append(tp.Ops, Op{K: "closeOther", N: r.IntN(8)})
			default:
				tp.Ops = append(tp.Ops, Op{K: "sleep", Ms: pick(r, int64(5), 400, 1300, 2600)})
			}
		}
		p.Tasks = append(p.Tasks, tp)
	}
	switch r.IntN(8) {
	case 0:
		p.Faults = append(p.Faults, Fault{Kind: "store-before", At: r.IntN(6)})
	case 1:
		p.Faults = append(p.Faults, Fault{Kind: "delay", At: r.IntN(100), Task: 1 + r.IntN(nw+nc), N: 5 + r.IntN(60)})
	case 2:
		p.Faults = append(p.Faults, Fault{Kind: "store-latency", At: r.IntN(6), Ms: int64(1 + r.IntN(1500))})
	case 3:
		// the wall clock steps back: event times then run ahead of the clock the positioning code may look at.
		// (No steps forward here: a transaction that is open across a large step forward has its own, now "old"
		// events trimmed by the very commit that appends them; they never reach a committed catalog, so the
		// oracle's event log cannot know about them and would take the resulting lost-position errors - which
		// are legitimate - for spurious ones.)
		p.Faults = append(p.Faults, Fault{Kind: "clock-back", At: 5 + r.IntN(150), Ms: pick(r, int64(5000), 600000, 3600000)})
	}
	return p
}

type gEvent struct {
	doc    bson.D
	id     string // identity: the bytes of the whole event (tokens alone would hide events that share one)
	token  string
	db     string
	coll   string
	typ    string
	commit int
	at     time.Duration
}

func execC09(t *testing.T, plan *Plan) *Outcome {
	return runPlan(t, plan, func(e *Env) {
		e.monitors()
		sim := e.sim
		var log []*gEvent
		evCount := []int{0} // evCount[j] = events committed after j commits
		e.onCommit = append(e.onCommit, func(c *CommitRec) {
			prev := c.Prev
			n := 0
			if prev != nil {
				n = len(prev.Namespaces[lungo.Oplog].Documents.List)
			}
			cur := oplogOf(c.Cat)
			// appended events = those with an id greater than every earlier one
			seen := map[string]bool{}
			for _, g := range log {
				seen[g.id] = true
			}
			_ = n
			for _, ev := range cur {
				tok := valStr(model.Get(ev, "_id"))
				id := string(model.Bytes(ev))
				if seen[id] {
					continue
				}
				g := &gEvent{doc: ev, id: id, token: tok, commit: c.Seq, at: c.At}
				g.db, _ = model.Get(ev, "ns.db").(string)
				g.coll, _ = model.Get(ev, "ns.coll").(string)
				g.typ, _ = model.Get(ev, "operationType").(string)
				log = append(log, g)
			}
			evCount = append(evCount, len(log))
		})
		var actors []*actor
		var allStreams []*streamState
		ok := false
		sim.Go("setup", false, func(*simrt.Task) {
			if err := e.open(); err != nil {
				e.out.Harness = "open failed: " + err.Error()
				return
			}
			ok = true
			for i, tp := range plan.Tasks {
				a := &actor{e: e, idx: i}
				a.special = func(a *actor, op *Op) bool {
					if op.K == "closeOther" {
						if len(allStreams) > 0 {
							st := allStreams[op.N%len(allStreams)]
							if st.s != nil {
								st.s.Close(nil)
								e.logf("[%s] closed stream %d of another task", a.t.Name, op.N%len(allStreams))
								e.probe("close-by-other-task")
								if st.ended == "" {
									st.ended = "closed"
								}
							}
						}
						return true
					}
					return false
				}
				a.afterCall = func(a *actor, c *CallRec) {
					if c.Op.K == "watch" {
						allStreams = append(allStreams, a.streams[len(a.streams)-1])
					}
					c09Call(e, a, c, &log, evCount)
				}
				actors = append(actors, a)
				ops := tp.Ops
				a.t = sim.Go(tp.Name, false, func(*simrt.Task) { a.run(ops) })
			}
		})
		sim.Run()
		if !ok || e.out.Harness != "" {
			return
		}
		e.out.Nontrivial = sim.ChoicePoints() > 0
		if sim.PanicVal != nil || sim.Deadlock != "" || sim.TimeOut || sim.StepsOut {
			// writers and consumers that block each other for good are a stall of delivery
			e.violate(violation("C09", "stalled-delivery", "deadlock", fmt.Sprintf("stream run did not finish: panic=%v %s %s", sim.PanicVal, sim.Deadlock, e.stallReport())))
			return
		}
		if e.failed() {
			return
		}
		// history check of every stream
		for _, a := range actors {
			for _, st := range a.streams {
				if v := c09Stream(e, st, log, evCount); v != nil {
					e.violate(v)
					return
				}
			}
		}
		// bounded liveness: faults have stopped, writers are done; owed events arrive without waiting
		e.storeFaults, e.stepFaults = map[int]Fault{}, map[int][]Fault{}
		for _, a := range actors {
			a := a
			for si, st := range a.streams {
				if st.s == nil || st.ended != "" {
					continue
				}
				si, st := si, st
				done := false
				sim.Go(fmt.Sprintf("drain-%s-%d", a.t.Name, si), false, func(task *simrt.Task) {
					a.t = task
					// (as many calls as there are events in the whole log, and a few more: the drain ends when a call
					// delivers nothing)
					for i := 0; i < len(log)+5 && st.ended == "" && !e.failed(); i++ {
						before := len(st.events)
						t0 := sim.Elapsed()
						c := a.exec(&Op{K: "next", N: si, Ctx: "deadline", Ms: 5000})
						if len(st.events) == before {
							_ = c
							break
						}
						if d := sim.Elapsed() - t0; d > 0 {
							e.violate(violation("C09", "stalled-delivery", "", fmt.Sprintf("after writers finished, an event that was already committed needed %v of simulated time to be delivered", d)))
						}
					}
					done = true
				})
				sim.Run()
				if !done && !e.failed() {
					e.violate(violation("C09", "stalled-delivery", "hang", "draining a stream after the writers finished did not complete: "+e.stallReport()))
					return
				}
				if e.failed() {
					return
				}
				if v := c09Stream(e, st, log, evCount); v != nil {
					e.violate(v)
					return
				}
				if v := c09Owed(e, st, log, evCount); v != nil {
					e.violate(v)
					return
				}
			}
		}
		hb := ""
		for _, g := range log {
			hb += g.token + ","
		}
		e.out.StateHash = hash64(len(log), len(e.commits))
		_ = hb
	})
}

func inScope(st *streamState, g *gEvent) bool {
	if st.scope[0] == "" {
		return true
	}
	if g.db != st.scope[0] {
		return false
	}
	if st.scope[1] == "" {
		return true
	}
	return g.coll == st.scope[1] || g.typ == "dropDatabase"
}

func invalidates(st *streamState, g *gEvent) bool {
	if st.scope[0] == "" {
		return false
	}
	if g.typ == "dropDatabase" {
		return true
	}
	return st.scope[1] != "" && g.typ == "drop"
}

// expected returns the scope-filtered log from global position p on, cut after the first invalidating event.
func expected(st *streamState, log []*gEvent, p int) []*gEvent {
	var out []*gEvent
	for _, g := range log[p:] {
		if !inScope(st, g) {
			continue
		}
		out = append(out, g)
		if invalidates(st, g) {
			break
		}
	}
	return out
}

func indexOfToken(log []*gEvent, tok string) int {
	for i, g := range log {
		if g.token == tok {
			return i
		}
	}
	return -1
}

func indexOfID(log []*gEvent, id string) int {
	for i, g := range log {
		if g.id == id {
			return i
		}
	}
	return -1
}

func rawTok(r bson.Raw) string {
	var d bson.D
	if err := bson.Unmarshal(r, &d); err != nil {
		return "?"
	}
	return valStr(d)
}

// startRange returns the admissible global start positions of a stream.
func startRange(st *streamState, log []*gEvent, evCount []int) (lo, hi int, ok bool) {
	if st.startAt {
		// event ids (= cluster times) are strictly increasing: the first event at or after the time is the event itself
		i := indexOfID(log, string(model.Bytes(st.startEv)))
		if i < 0 {
			return 0, 0, false
		}
		return i, i, true
	}
	if st.startTok != nil {
		// the position is the delivered event the token was taken from
		i := indexOfID(log, string(model.Bytes(st.startEv)))
		if i < 0 {
			return 0, 0, false
		}
		return i + 1, i + 1, true
	}
	lo, hi = evCount[min(st.openInv, len(evCount)-1)], evCount[min(st.openRet, len(evCount)-1)]
	return lo, hi, true
}

// c09Stream checks the delivered events of one stream against the commit history.
func c09Stream(e *Env, st *streamState, log []*gEvent, evCount []int) *Violation {
	if st.s == nil {
		return nil
	}
	lo, hi, ok := startRange(st, log, evCount)
	if !ok {
		return violation("C09", "unknown-start-token", "", "a stream was opened from a token that is not in the change log history")
	}
	// delivered events without the synthetic invalidate
	var got []string
	var gotEvents []bson.D
	invalidated := false
	for i, ev := range st.events {
		if model.Get(ev, "operationType") == "invalidate" {
			if i != len(st.events)-1 {
				return violation("C09", "event-after-invalidate", "", "a stream delivered events after its invalidate event")
			}
			invalidated = true
			continue
		}
		got = append(got, string(model.Bytes(ev)))
		gotEvents = append(gotEvents, ev)
		tok := valStr(model.Get(ev, "_id"))
		for _, prev := range st.events[:i] {
			if valStr(model.Get(prev, "_id")) == tok {
				return violation("C09", "token-not-unique", "", fmt.Sprintf("a stream delivered two events with the same resume token %s: resuming from it cannot continue with the next event", tok))
			}
		}
	}
	var why string
	// latest admissible start first: it owes the fewest events
	for p := hi; p >= lo; p-- {
		exp := expected(st, log, p)
		why = ""
		if len(got) > len(exp) {
			why = fmt.Sprintf("delivered %d events, only %d matching events were committed after the start position", len(got), len(exp))
			continue
		}
		for i := range got {
			if got[i] != exp[i].id {
				kind := "out of order or skipped"
				if j := indexOfID(log, got[i]); j >= 0 && j < p {
					kind = "from before the start position"
				}
				for k := 0; k < i; k++ {
					if got[k] == got[i] {
						kind = "delivered twice"
					}
				}
				why = fmt.Sprintf("delivered event %d is %s but the %d-th matching event after the start position is %s (%s)", i, docStr(gotEvents[i]), i, docStr(exp[i].doc), kind)
				break
			}
		}
		if why != "" {
			continue
		}
		if invalidated {
			if len(got) == 0 || !invalidates(st, exp[len(got)-1]) {
				why = "invalidate event without a preceding drop of the watched collection / database"
				continue
			}
		}
		if len(got) > 0 && len(got) == len(exp) && invalidates(st, exp[len(exp)-1]) {
			e.probe("stream-saw-drop")
		}
		st.matchedStart, st.checked = p, true
		return nil
	}
	key := "order"
	if len(why) > 0 && (contains2(why, "twice")) {
		key = "duplicate"
	} else if contains2(why, "skipped") {
		key = "skipped"
	} else if contains2(why, "before the start") {
		key = "stale"
	}
	return violation("C09", "delivery-mismatch", key, fmt.Sprintf("stream scope=%v start=%s (positions %d..%d): %s", st.scope, st.op.Start, lo, hi, why))
}

func contains2(s, sub string) bool {
	for i := 0; i+len(sub) <= len(s); i++ {
		if s[i:i+len(sub)] == sub {
			return true
		}
	}
	return false
}

// c09Owed: after draining, a stream that is still open must have delivered everything it was owed.
func c09Owed(e *Env, st *streamState, log []*gEvent, evCount []int) *Violation {
	if !st.checked || (st.ended != "" && st.ended != "ctx") {
		return nil
	}
	exp := expected(st, log, st.matchedStart)
	n := 0
	for _, ev := range st.events {
		if model.Get(ev, "operationType") != "invalidate" {
			n++
		}
	}
	if n < len(exp) {
		return violation("C09", "events-not-delivered", "", fmt.Sprintf("stream scope=%v is open and idle but %d committed matching events were never delivered (next: %s)", st.scope, len(exp)-n, exp[n].token))
	}
	e.probe("stream-drained")
	return nil
}

// c09Call is evaluated after every call of a consumer.
func c09Call(e *Env, a *actor, c *CallRec, log *[]*gEvent, evCount []int) {
	if c.Panic != nil {
		e.violate(violation("C09", "panic", "", fmt.Sprintf("%s panicked: %v", opStr(c.Op), c.Panic)))
		return
	}
	switch c.Op.K {
	case "watch":
		st := a.streams[len(a.streams)-1]
		if c.Err != nil {
			cls := classifyErr(c.Err)
			if cls == "unable to resume change stream" && st.startTok != nil {
				// acceptable only if the token's event has been trimmed
				tok := rawTok(st.startTok)
				for _, ev := range oplogOf(e.engine.Catalog()) {
					if valStr(model.Get(ev, "_id")) == tok {
						e.violate(violation("C09", "resume-refused", "", "resuming from the token of a delivered event that is still in the change log failed"))
					}
				}
				e.probe("resume-after-trim-refused")
				return
			}
			if cls == "lost-position" && st.startAt {
				// acceptable only if the event the start time was taken from has been discarded
				id := string(model.Bytes(st.startEv))
				for _, ev := range oplogOf(e.engine.Catalog()) {
					if string(model.Bytes(ev)) == id {
						e.violate(violation("C09", "start-at-refused", "", "starting at the cluster time of a delivered event that is still in the change log failed with a lost position"))
					}
				}
				e.probe("start-at-after-trim-refused")
				return
			}
			e.violate(violation("C09", "watch-failed", classKey(c.Err), fmt.Sprintf("%s failed: %v", opStr(c.Op), c.Err)))
		}
	case "next", "trynext":
		st := a.stream(c.Op.N)
		if st == nil || st.s == nil {
			return
		}
		cls := classifyErr(c.Err)
		if c.Res.Count == 1 {
			// the stream's position is the delivered event
			if i := indexOfID(*log, string(model.Bytes(c.Res.Docs[0]))); i >= 0 && i+1 > st.scanned {
				st.scanned = i + 1
			}
			return
		}
		if cls == "ok" && c.Op.K == "trynext" && st.ended == "" {
			// a poll that found nothing has examined every event that existed when it was invoked
			if n := evCount[min(c.InvCom, len(evCount)-1)]; n > st.scanned {
				st.scanned = n
			}
		}
		switch cls {
		case "ok":
			// no event: legitimate if the stream is closed / invalidated, or (TryNext) nothing is pending
			if st.ended == "" && c.Op.K == "next" {
				// a blocking Next returned false without error on an open stream: closed concurrently?
				if st.s.Err() == nil {
					st.ended = "closed"
				}
			}
		case "lost-position":
			e.probe("lost-position")
			st.ended = "lost"
			// the position must really be gone. The stream's internal position is some event at or after the one
			// preceding its earliest admissible start position (it may have scanned past events outside its
			// scope), and retention only removes a prefix: if that event is still in the log - or nothing was ever
			// removed - no event the stream had not seen can have been discarded
			if lo, _, ok := startRange(st, *log, evCount); ok && e.out.Faults["clock-jump"] == 0 {
				oldest := len(*log)
				if cur := oplogOf(e.engine.Catalog()); len(cur) > 0 {
					if i := indexOfID(*log, string(model.Bytes(cur[0]))); i >= 0 {
						oldest = i
					}
				}
				// (st.scanned counts events: the stream has examined the events below that index, so its position is
				// at least the event st.scanned-1, delivered or skipped as out of scope)
				if oldest <= max(lo-1, st.scanned-1, 0) {
					e.violate(violation("C09", "lost-position-without-loss", "", fmt.Sprintf("a stream (scope=%v start=%s) failed with a lost position although retention has not removed any event at or after its position (oldest retained event %d, start position %d, events examined %d)", st.scope, st.op.Start, oldest, lo, st.scanned)))
				}
			}
		case "ctx-deadline":
			// a blocked Next ran into its deadline: no matching undelivered event may have been committed earlier
			if c.Op.K == "next" && st.ended == "" {
				if v := c09LostWakeup(e, st, *log, evCount, c); v != nil {
					e.violate(v)
				}
			}
			// like the MongoDB driver, a context error ends the stream (the error is sticky)
			if st.ended == "" {
				st.ended = "ctx"
			}
		case "ctx-cancelled":
			e.probe("next-cancelled")
			if st.ended == "" {
				st.ended = "ctx"
			}
		default:
			e.violate(violation("C09", "next-error", classKey(c.Err), fmt.Sprintf("%s returned %v", opStr(c.Op), c.Err)))
		}
	}
}

// c09LostWakeup: Next waited until its deadline although a matching event was committed strictly earlier.
func c09LostWakeup(e *Env, st *streamState, log []*gEvent, evCount []int, c *CallRec) *Violation {
	if e.plan.Cfg.TimePassPct > 0 {
		return nil
	}
	lo, hi, ok := startRange(st, log, evCount)
	if !ok {
		return nil
	}
	// owed = matching events after the last delivered one (or after the latest admissible start position)
	_ = lo
	exp := expected(st, log, hi)
	n := 0
	for i := len(st.events) - 1; i >= 0; i-- {
		if model.Get(st.events[i], "operationType") == "invalidate" {
			continue
		}
		tok := valStr(model.Get(st.events[i], "_id"))
		for j, g := range exp {
			if g.token == tok {
				n = j + 1
			}
		}
		break
	}
	if n < len(exp) {
		g := exp[n]
		// is it still in the log (not trimmed)? then it was owed
		inLog := false
		for _, ev := range oplogOf(e.engine.Catalog()) {
			if valStr(model.Get(ev, "_id")) == g.token {
				inLog = true
			}
		}
		if inLog && g.at < c.RetAt && c.RetAt-c.InvAt > 0 {
			return violation("C09", "lost-wakeup", "", fmt.Sprintf("a blocked Next ran into its deadline at %v although matching event %s was committed at %v and never delivered", c.RetAt, g.token, g.at))
		}
	}
	e.probe("next-deadline-idle")
	return nil
}
